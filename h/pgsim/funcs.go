package pgsim

import (
	"crypto/md5"
	"crypto/sha256"
	"encoding/base64"
	"encoding/hex"
	"fmt"
	"hash/fnv"
	"math/big"
	"sort"
	"strconv"
	"strings"
)

func isSRFName(n string) bool {
	switch n {
	case "unnest", "jsonb_array_elements", "json_array_elements", "jsonb_array_elements_text", "json_array_elements_text",
		"jsonb_each", "jsonb_each_text", "json_each", "json_each_text", "jsonb_object_keys", "json_object_keys", "generate_series":
		return true
	}
	return false
}

func (x *execCtx) evalArgs(f *FuncX, sc *scope) ([]Value, error) {
	args := make([]Value, len(f.Args))
	for i, a := range f.Args {
		v, err := x.eval(a, sc)
		if err != nil {
			return nil, err
		}
		args[i] = v
	}
	return args, nil
}

func (x *execCtx) evalFunc(f *FuncX, sc *scope) (Value, error) {
	if f.Over != nil {
		for s := sc; s != nil; s = s.parent {
			if v, ok := s.win[f]; ok {
				return v, nil
			}
		}
		return nil, engineErr("window function %s evaluated outside a windowed select", f.Name)
	}
	if f.Name == "\x00array_subquery" {
		rs, err := x.child().runSelect(f.Args[0].(*SubQ).Q, sc)
		if err != nil {
			return nil, err
		}
		arr := &Array{}
		for _, r := range rs.Rows {
			arr.Items = append(arr.Items, r[0])
		}
		return arr, nil
	}
	if x.isAgg(f) {
		for s := sc; s != nil; s = s.parent {
			if s.grouped {
				return x.evalAgg(f, s)
			}
		}
		return nil, pgErr("42803", "aggregate functions are not allowed here (%s)", f.Name)
	}
	// lazily evaluated builtins
	if f.Schema == "" || f.Schema == "pg_catalog" {
		switch f.Name {
		case "coalesce":
			for _, a := range f.Args {
				v, err := x.eval(a, sc)
				if err != nil {
					return nil, err
				}
				if v != nil {
					// resolve an unknown literal against the first typed argument
					if u, ok := v.(Unk); ok {
						for _, b := range f.Args {
							if b == a {
								continue
							}
							if l, isLit := b.(*Lit); isLit {
								if _, isUnk := l.V.(Unk); isUnk || l.V == nil {
									continue
								}
							}
							bv, err := x.eval(b, sc)
							if err == nil && bv != nil {
								if _, stillUnk := bv.(Unk); !stillUnk {
									return coerceLike(u, bv)
								}
							}
							// a NULL argument still has a static type in Postgres
							if st := x.staticType(b, sc); st != "" {
								return x.cast(u, st)
							}
							break
						}
					}
					return v, nil
				}
			}
			return nil, nil
		}
	}
	args, err := x.evalArgs(f, sc)
	if err != nil {
		return nil, err
	}
	if f.Schema == "" || f.Schema == "pg_catalog" || f.Schema == "public" {
		if v, ok, err := x.builtin(f, args); ok || err != nil {
			return v, err
		}
	}
	fn, err := x.resolveFunc(f, len(args))
	if err != nil {
		return nil, err
	}
	rs, err := x.callFunction(fn, args, f.ArgNames)
	if err != nil {
		return nil, err
	}
	if fn.SetOf {
		// set-returning function in scalar context: first row (legacy functions only)
		if len(rs.Rows) == 0 {
			return nil, nil
		}
	}
	if len(rs.Rows) == 0 {
		return nil, nil
	}
	if len(rs.Rows[0]) == 1 {
		return rs.Rows[0][0], nil
	}
	return &Record{Names: rs.Cols, Vals: rs.Rows[0]}, nil
}

func (x *execCtx) resolveFunc(f *FuncX, nargs int) (*Function, error) {
	cands := x.s.findFuncs(f.Schema, f.Name)
	if len(cands) == 0 && f.Schema == "" {
		cands = x.s.db.schemas["public"].Funcs[f.Name]
	}
	var best *Function
	for _, c := range cands {
		req := 0
		for _, p := range c.Params {
			if p.Default == nil && p.Mode != "out" {
				req++
			}
		}
		if nargs >= req && nargs <= len(c.Params) {
			best = c
		}
	}
	if best == nil {
		return nil, pgErr("42883", "function %s(%d args) does not exist", f.Name, nargs)
	}
	return best, nil
}

func (x *execCtx) evalSRF(f *FuncX, sc *scope) (*RowSet, error) {
	args, err := x.evalArgs(f, sc)
	if err != nil {
		return nil, err
	}
	colName := "\x00" + f.Name
	one := func(vals []Value) *RowSet {
		rs := &RowSet{Cols: []string{colName}}
		for _, v := range vals {
			rs.Rows = append(rs.Rows, []Value{v})
		}
		return rs
	}
	if f.Schema == "" || f.Schema == "pg_catalog" {
		switch f.Name {
		case "unnest":
			if len(args) != 1 {
				return nil, engineErr("unnest with %d args", len(args))
			}
			if args[0] == nil {
				return one(nil), nil
			}
			a, ok := args[0].(*Array)
			if !ok {
				return nil, pgErr("42883", "function unnest(%s) does not exist", typeNameOf(args[0]))
			}
			return one(a.Items), nil
		case "jsonb_array_elements", "json_array_elements", "jsonb_array_elements_text", "json_array_elements_text":
			if args[0] == nil {
				return &RowSet{Cols: []string{"value"}}, nil
			}
			j, err := asJSONArg(f.Name, args[0])
			if err != nil {
				return nil, err
			}
			if j.Kind != JArray {
				return nil, pgErr("22023", "cannot extract elements from %s", articleKind(j))
			}
			rs := &RowSet{Cols: []string{"value"}}
			for _, e := range j.Arr {
				if strings.HasSuffix(f.Name, "_text") {
					rs.Rows = append(rs.Rows, []Value{jsonChildOf(j, e).textValue()})
				} else {
					c := e.Clone()
					c.B = j.B
					rs.Rows = append(rs.Rows, []Value{c})
				}
			}
			return rs, nil
		case "jsonb_each", "json_each", "jsonb_each_text", "json_each_text":
			rs := &RowSet{Cols: []string{"key", "value"}}
			if args[0] == nil {
				return rs, nil
			}
			j, err := asJSONArg(f.Name, args[0])
			if err != nil {
				return nil, err
			}
			if j.Kind != JObject {
				return nil, pgErr("22023", "cannot deconstruct %s", articleKind(j))
			}
			for i, k := range j.Keys {
				if strings.HasSuffix(f.Name, "_text") {
					rs.Rows = append(rs.Rows, []Value{Text(k), jsonChildOf(j, j.Vals[i]).textValue()})
				} else {
					c := j.Vals[i].Clone()
					c.B = j.B
					rs.Rows = append(rs.Rows, []Value{Text(k), c})
				}
			}
			return rs, nil
		case "jsonb_object_keys", "json_object_keys":
			rs := &RowSet{Cols: []string{colName}}
			if args[0] == nil {
				return rs, nil
			}
			j, err := asJSON(args[0])
			if err != nil {
				return nil, err
			}
			if j.Kind != JObject {
				return nil, pgErr("22023", "cannot call %s on %s", f.Name, articleKind(j))
			}
			for _, k := range j.Keys {
				rs.Rows = append(rs.Rows, []Value{Text(k)})
			}
			return rs, nil
		case "generate_series":
			if len(args) < 2 {
				return nil, engineErr("generate_series needs 2+ args")
			}
			lo, _, ok1 := asBig(coerceUnkInt(args[0]))
			hi, _, ok2 := asBig(coerceUnkInt(args[1]))
			if !ok1 || !ok2 {
				return nil, engineErr("generate_series over non-integers")
			}
			step := int64(1)
			if len(args) > 2 {
				s, _, _ := asBig(coerceUnkInt(args[2]))
				step = s.Int64()
			}
			if step == 0 {
				return nil, pgErr("22023", "step size cannot equal zero")
			}
			var vals []Value
			for i := lo.Int64(); (step > 0 && i <= hi.Int64()) || (step < 0 && i >= hi.Int64()); i += step {
				vals = append(vals, i)
				if len(vals) > 1_000_000 {
					return nil, engineErr("generate_series too large")
				}
			}
			return one(vals), nil
		}
		if v, ok, err := x.builtin(f, args); ok || err != nil {
			if err != nil {
				return nil, err
			}
			return one([]Value{v}), nil
		}
	}
	fn, err := x.resolveFunc(f, len(args))
	if err != nil {
		return nil, err
	}
	rs, err := x.callFunction(fn, args, f.ArgNames)
	if err != nil {
		return nil, err
	}
	// a function returning a composite type yields its columns; a scalar one yields one column
	if len(rs.Cols) == 1 {
		if len(rs.Rows) > 0 {
			if r, ok := rs.Rows[0][0].(*Record); ok && r.Type != "" {
				out := &RowSet{Cols: r.Names}
				for _, row := range rs.Rows {
					if rr, ok := row[0].(*Record); ok {
						out.Rows = append(out.Rows, rr.Vals)
					} else {
						out.Rows = append(out.Rows, make([]Value, len(r.Names)))
					}
				}
				return out, nil
			}
		} else if td := x.s.findType(fn.Returns); td != nil && td.Fields != nil {
			out := &RowSet{}
			for _, fl := range td.Fields {
				out.Cols = append(out.Cols, fl.Name)
			}
			return out, nil
		}
		rs.Cols = []string{colName}
	}
	return rs, nil
}

func articleKind(j *JSON) string {
	switch j.Kind {
	case JArray:
		return "an array"
	case JObject:
		return "an object"
	}
	return "a scalar"
}

// ---------- aggregates ----------

func (x *execCtx) evalAgg(f *FuncX, g *scope) (Value, error) {
	rows := g.group
	if len(f.OrderBy) > 0 {
		keys := make([][]Value, len(rows))
		for i, sc := range rows {
			for _, it := range f.OrderBy {
				v, err := x.eval(it.X, sc)
				if err != nil {
					return nil, err
				}
				keys[i] = append(keys[i], v)
			}
		}
		idx := make([]int, len(rows))
		for i := range idx {
			idx[i] = i
		}
		var ferr error
		sort.SliceStable(idx, func(a, b int) bool {
			for j, it := range f.OrderBy {
				c, err := compareOrder(keys[idx[a]][j], keys[idx[b]][j], it)
				if err != nil {
					ferr = err
					return false
				}
				if c != 0 {
					return c < 0
				}
			}
			return false
		})
		if ferr != nil {
			return nil, ferr
		}
		sorted := make([]*scope, len(rows))
		for i, j := range idx {
			sorted[i] = rows[j]
		}
		rows = sorted
	}
	if f.Star {
		if f.Name != "count" {
			return nil, engineErr("%s(*)", f.Name)
		}
		return int64(len(rows)), nil
	}
	// evaluate argument tuples per row; inner scope must not be "grouped"
	argRows := make([][]Value, 0, len(rows))
	seen := map[string]bool{}
	for _, sc := range rows {
		inner := &scope{parent: sc.parent, rels: sc.rels, win: sc.win}
		vals := make([]Value, len(f.Args))
		for i, a := range f.Args {
			v, err := x.eval(a, inner)
			if err != nil {
				return nil, err
			}
			if u, ok := v.(Unk); ok {
				v = Text(u)
			}
			vals[i] = v
		}
		if f.Distinct {
			k, err := groupKey(vals)
			if err != nil {
				return nil, err
			}
			if seen[k] {
				continue
			}
			seen[k] = true
		}
		argRows = append(argRows, vals)
	}
	if f.Schema == "" || f.Schema == "pg_catalog" {
		if builtinAggs[f.Name] {
			return builtinAgg(f.Name, argRows)
		}
	}
	ag := x.s.findAgg(f.Schema, f.Name)
	if ag == nil {
		return nil, pgErr("42883", "aggregate %s does not exist", f.Name)
	}
	var state Value
	if ag.InitCond != nil {
		var err error
		state, err = x.cast(Unk(*ag.InitCond), ag.SType)
		if err != nil {
			return nil, err
		}
	}
	sfSchema, sfName := "", ag.SFunc
	if i := strings.IndexByte(sfName, '.'); i >= 0 {
		sfSchema, sfName = sfName[:i], sfName[i+1:]
	}
	if sfSchema == "" {
		sfSchema = ag.Schema
	}
	for _, vals := range argRows {
		call := &FuncX{Schema: sfSchema, Name: sfName}
		args := append([]Value{state}, vals...)
		// builtin transition function (jsonb_concat in legacy buckets)?
		if cands := x.s.findFuncs(sfSchema, sfName); len(cands) == 0 {
			if v, ok, err := x.builtin(call, args); ok || err != nil {
				if err != nil {
					return nil, err
				}
				state = v
				continue
			}
		}
		fn, err := x.resolveFunc(call, len(args))
		if err != nil {
			return nil, err
		}
		rs, err := x.callFunction(fn, args, nil)
		if err != nil {
			return nil, err
		}
		if len(rs.Rows) > 0 {
			state = rs.Rows[0][0]
		} else {
			state = nil
		}
	}
	return state, nil
}

func builtinAgg(name string, rows [][]Value) (Value, error) {
	switch name {
	case "count":
		n := int64(0)
		for _, r := range rows {
			if r[0] != nil {
				n++
			}
		}
		return n, nil
	case "sum":
		var acc *big.Int
		for _, r := range rows {
			if r[0] == nil {
				continue
			}
			b, _, ok := asBig(coerceUnkInt(r[0]))
			if !ok {
				return nil, pgErr("42883", "function sum(%s) does not exist", typeNameOf(r[0]))
			}
			if acc == nil {
				acc = new(big.Int)
			}
			acc.Add(acc, b)
		}
		if acc == nil {
			return nil, nil
		}
		return Numeric{acc}, nil
	case "max", "min":
		var best Value
		for _, r := range rows {
			if r[0] == nil {
				continue
			}
			if best == nil {
				best = r[0]
				continue
			}
			c, err := compareValues(r[0], best)
			if err != nil {
				return nil, err
			}
			if (name == "max" && c > 0) || (name == "min" && c < 0) {
				best = r[0]
			}
		}
		return best, nil
	case "array_agg":
		if len(rows) == 0 {
			return nil, nil
		}
		arr := &Array{}
		for _, r := range rows {
			arr.Items = append(arr.Items, r[0])
			if arr.Elem == "" && r[0] != nil {
				arr.Elem = baseType(typeNameOf(r[0]))
			}
		}
		return arr, nil
	case "string_agg":
		var sb strings.Builder
		any := false
		for _, r := range rows {
			if r[0] == nil {
				continue
			}
			s, err := textOf(r[0])
			if err != nil {
				return nil, err
			}
			if any && len(r) > 1 && r[1] != nil {
				d, _ := textOf(r[1])
				sb.WriteString(d)
			}
			sb.WriteString(s)
			any = true
		}
		if !any {
			return nil, nil
		}
		return Text(sb.String()), nil
	case "jsonb_agg", "json_agg":
		if len(rows) == 0 {
			return nil, nil
		}
		out := &JSON{Kind: JArray, B: name == "jsonb_agg"}
		for _, r := range rows {
			j, err := toJSON(r[0])
			if err != nil {
				return nil, err
			}
			out.Arr = append(out.Arr, j)
		}
		if out.B {
			return out.Normalize(), nil
		}
		return pinJSONText(out, "[", ", ", "", "]"), nil // doc 9.21: json_agg output is `[1, 2]`
	case "json_object_agg", "jsonb_object_agg":
		if len(rows) == 0 {
			return nil, nil
		}
		out := jObject()
		for _, r := range rows {
			if r[0] == nil {
				return nil, pgErr("22004", "field name must not be null")
			}
			k, _ := textOf(r[0])
			j, err := toJSON(r[1])
			if err != nil {
				return nil, err
			}
			out.set(k, j)
		}
		if name == "jsonb_object_agg" {
			return out.Normalize(), nil
		}
		return pinJSONText(out, "{ ", ", ", " : ", " }"), nil // json_object_agg output is `{ "a" : 1, "b" : 2 }`
	case "bool_and", "every", "bool_or":
		var res Value
		for _, r := range rows {
			if r[0] == nil {
				continue
			}
			b, err := toBool(r[0])
			if err != nil {
				return nil, err
			}
			if res == nil {
				res = b
			} else if name == "bool_or" {
				res = res.(bool) || b
			} else {
				res = res.(bool) && b
			}
		}
		return res, nil
	}
	return nil, engineErr("aggregate %s not supported", name)
}

// ---------- builtins ----------

func hashText(s string) int64 {
	h := fnv.New32a()
	h.Write([]byte(s))
	return int64(int32(h.Sum32()))
}

func (x *execCtx) builtin(f *FuncX, args []Value) (Value, bool, error) {
	argText := func(i int) string {
		if i >= len(args) || args[i] == nil {
			return ""
		}
		s, _ := textOf(args[i])
		return s
	}
	anyNull := func() bool {
		for _, a := range args {
			if a == nil {
				return true
			}
		}
		return false
	}
	s := x.s
	db := s.db
	switch f.Name {
	case "nullif":
		if len(args) != 2 {
			return nil, true, engineErr("nullif arity")
		}
		if args[0] != nil && args[1] != nil {
			c, err := compareValues(args[0], args[1])
			if err != nil {
				return nil, true, err
			}
			if c == 0 {
				return nil, true, nil
			}
		}
		return args[0], true, nil
	case "least", "greatest":
		var best Value
		for _, a := range args {
			if a == nil {
				continue
			}
			if best == nil {
				best = a
				continue
			}
			c, err := compareValues(a, best)
			if err != nil {
				return nil, true, err
			}
			if (f.Name == "least" && c < 0) || (f.Name == "greatest" && c > 0) {
				best = a
			}
		}
		if u, ok := best.(Unk); ok {
			for _, a := range args {
				if a != nil {
					if _, isU := a.(Unk); !isU {
						v, err := coerceLike(u, a)
						return v, true, err
					}
				}
			}
		}
		return best, true, nil
	case "now", "transaction_timestamp", "current_timestamp":
		return Timestamp(s.txStart), true, nil
	case "statement_timestamp", "clock_timestamp":
		return Timestamp(s.stmtTime), true, nil
	case "current_schema":
		for _, p := range s.path() {
			if db.schemas[p] != nil {
				return Text(p), true, nil
			}
		}
		return nil, true, nil
	case "current_database":
		return Text("pgsim"), true, nil
	case "version":
		return Text("PostgreSQL 16.0 (pgsim)"), true, nil
	case "nextval", "currval":
		sch, name, err := parseQualifiedText(argText(0))
		if err != nil {
			return nil, true, err
		}
		q, err := s.findSeq(sch, name)
		if err != nil {
			return nil, true, err
		}
		// CREATE SEQUENCE ... CACHE n (Postgres docs, "Notes"): each session pre-allocates n
		// values on its first nextval and hands them out locally; the sequence itself jumps by
		// n; values cached by a session that ends are lost. currval is per session.
		inc, cache := q.Increment, q.Cache
		if inc < 1 {
			inc = 1
		}
		if cache < 1 {
			cache = 1
		}
		if s.seqCache == nil {
			s.seqCache = map[*Sequence]*seqCacheEntry{}
		}
		c := s.seqCache[q]
		if f.Name == "currval" {
			if c == nil || !c.returned {
				// doc 9.17 currval: session-local; "an error is reported if nextval has never
				// been called for this sequence in this session" (also for uncached sequences)
				return nil, true, pgErr("55000", "currval of sequence %q is not yet defined in this session", q.Name)
			}
			return c.last, true, nil
		}
		if cache > 1 && c != nil && c.next <= c.end && c.epoch == q.epoch {
			v := c.next
			c.next += inc
			c.last, c.returned = v, true
			return v, true, nil
		}
		first := q.Last
		if q.Called {
			first = q.Last + inc
		}
		end := first + (cache-1)*inc
		q.Last, q.Called = end, true
		if c == nil {
			c = &seqCacheEntry{}
			s.seqCache[q] = c
		}
		c.next, c.end, c.last, c.returned, c.epoch = first+inc, end, first, true, q.epoch
		return first, true, nil
	case "setval":
		if anyNull() {
			return nil, true, nil // setval is strict
		}
		sch, name, err := parseQualifiedText(argText(0))
		if err != nil {
			return nil, true, err
		}
		q, err := s.findSeq(sch, name)
		if err != nil {
			return nil, true, err
		}
		b, _, ok := asBig(coerceUnkInt(args[1]))
		if !ok {
			return nil, true, pgErr("42883", "setval: bad value")
		}
		q.Last = b.Int64()
		q.Called = true
		if len(args) > 2 {
			if c, ok := args[2].(bool); ok {
				q.Called = c
			}
		}
		// setval discards what THIS session had cached; other sessions keep handing out their
		// cached values (documented behaviour) — epoch is bumped only for the calling session's view
		// doc 9.17 setval: with is_called = true (the default) currval of THIS session reports the
		// value set; with is_called = false "the value reported by currval is not changed"
		if s.seqCache == nil {
			s.seqCache = map[*Sequence]*seqCacheEntry{}
		}
		c := s.seqCache[q]
		if c == nil {
			c = &seqCacheEntry{}
			s.seqCache[q] = c
		}
		c.next, c.end = 1, 0 // nothing cached any more
		if q.Called {
			c.last, c.returned = q.Last, true
		}
		return q.Last, true, nil
	case "hashtext":
		if anyNull() {
			return nil, true, nil
		}
		return hashText(argText(0)), true, nil
	case "pg_advisory_lock", "pg_advisory_xact_lock":
		if len(args) != 1 || args[0] == nil {
			return nil, true, engineErr("%s: only the single bigint key form is supported", f.Name)
		}
		b, _, ok := asBig(coerceUnkInt(args[0]))
		if !ok {
			return nil, true, pgErr("42883", "%s: bad key", f.Name)
		}
		if err := s.advisoryLock(b.Int64(), f.Name == "pg_advisory_xact_lock"); err != nil {
			return nil, true, err
		}
		return nil, true, nil
	case "pg_try_advisory_lock", "pg_try_advisory_xact_lock":
		// doc 9.27.10: like pg_advisory_lock / pg_advisory_xact_lock, but does not wait: returns
		// true if the lock was obtained at once, false if it is held by another session
		if len(args) != 1 || args[0] == nil {
			return nil, true, engineErr("%s: only the single bigint key form is supported", f.Name)
		}
		b, _, ok := asBig(coerceUnkInt(args[0]))
		if !ok {
			return nil, true, pgErr("42883", "%s: bad key", f.Name)
		}
		if s.db.AdvisoryHeldByOther(b.Int64(), s.ID) {
			return false, true, nil
		}
		if err := s.advisoryLock(b.Int64(), f.Name == "pg_try_advisory_xact_lock"); err != nil {
			return nil, true, err
		}
		return true, true, nil
	case "pg_advisory_unlock":
		b, _, ok := asBig(coerceUnkInt(args[0]))
		if !ok {
			return nil, true, pgErr("42883", "pg_advisory_unlock: bad key")
		}
		return s.advisoryUnlock(b.Int64()), true, nil
	case "pg_notify":
		return nil, true, nil
	case "digest":
		if anyNull() {
			return nil, true, nil
		}
		// pgcrypto has digest(bytea, text) and digest(text, text); the latter hashes the
		// characters of the text (an untyped literal resolves to text as well)
		var data Value
		switch d := args[0].(type) {
		case Text:
			data = Bytes([]byte(string(d)))
		case Unk:
			data = Bytes([]byte(string(d)))
		default:
			var err error
			data, err = castValue(args[0], "bytea")
			if err != nil {
				return nil, true, err
			}
		}
		switch strings.ToLower(argText(1)) {
		case "sha256":
			h := sha256.Sum256(data.(Bytes))
			return Bytes(h[:]), true, nil
		case "md5":
			h := md5.Sum(data.(Bytes))
			return Bytes(h[:]), true, nil
		}
		return nil, true, engineErr("digest algorithm %q", argText(1))
	case "md5":
		if anyNull() {
			return nil, true, nil
		}
		h := md5.Sum([]byte(argText(0)))
		return Text(hex.EncodeToString(h[:])), true, nil
	case "encode":
		if anyNull() {
			return nil, true, nil
		}
		data, err := castValue(args[0], "bytea")
		if err != nil {
			return nil, true, err
		}
		switch strings.ToLower(argText(1)) {
		case "escape":
			return Text(encodeEscape(data.(Bytes))), true, nil
		case "base64":
			return Text(encodeBase64(data.(Bytes))), true, nil
		case "hex":
			return Text(hex.EncodeToString(data.(Bytes))), true, nil
		}
		return nil, true, pgErr("22023", "unrecognized encoding: %q", argText(1))
	case "decode":
		if anyNull() {
			return nil, true, nil
		}
		switch strings.ToLower(argText(1)) {
		case "escape":
			b, err := parseBytea(argText(0))
			return b, true, err
		case "base64":
			b, err := base64.StdEncoding.DecodeString(strings.ReplaceAll(argText(0), "\n", ""))
			if err != nil {
				return nil, true, pgErr("22023", "invalid base64")
			}
			return Bytes(b), true, nil
		case "hex":
			b, err := hex.DecodeString(argText(0))
			if err != nil {
				return nil, true, pgErr("22023", "invalid hexadecimal data")
			}
			return Bytes(b), true, nil
		}
		return nil, true, pgErr("22023", "unrecognized encoding: %q", argText(1))
	case "convert_to":
		if anyNull() {
			return nil, true, nil
		}
		return Bytes([]byte(argText(0))), true, nil
	case "convert_from":
		if anyNull() {
			return nil, true, nil
		}
		data, err := castValue(args[0], "bytea")
		if err != nil {
			return nil, true, err
		}
		return Text(string(data.(Bytes))), true, nil
	case "length", "char_length", "character_length":
		if anyNull() {
			return nil, true, nil
		}
		if b, ok := args[0].(Bytes); ok {
			return int64(len(b)), true, nil
		}
		return int64(len([]rune(argText(0)))), true, nil
	case "octet_length":
		if anyNull() {
			return nil, true, nil
		}
		if b, ok := args[0].(Bytes); ok {
			return int64(len(b)), true, nil
		}
		return int64(len(argText(0))), true, nil
	case "lower":
		if anyNull() {
			return nil, true, nil
		}
		return Text(strings.ToLower(argText(0))), true, nil
	case "upper":
		if anyNull() {
			return nil, true, nil
		}
		return Text(strings.ToUpper(argText(0))), true, nil
	case "replace":
		if anyNull() {
			return nil, true, nil
		}
		return Text(strings.ReplaceAll(argText(0), argText(1), argText(2))), true, nil
	case "concat":
		var sb strings.Builder
		for i := range args {
			sb.WriteString(argText(i))
		}
		return Text(sb.String()), true, nil
	case "btrim", "trim":
		if anyNull() {
			return nil, true, nil
		}
		cut := " "
		if len(args) > 1 {
			cut = argText(1)
		}
		return Text(strings.Trim(argText(0), cut)), true, nil
	case "split_part":
		if anyNull() {
			return nil, true, nil
		}
		parts := strings.Split(argText(0), argText(1))
		n, _, _ := asBig(coerceUnkInt(args[2]))
		i := int(n.Int64())
		if i >= 1 && i <= len(parts) {
			return Text(parts[i-1]), true, nil
		}
		return Text(""), true, nil
	case "quote_ident":
		if anyNull() {
			return nil, true, nil
		}
		return Text("\"" + strings.ReplaceAll(argText(0), "\"", "\"\"") + "\""), true, nil
	case "quote_literal":
		if anyNull() {
			return nil, true, nil
		}
		return Text("'" + strings.ReplaceAll(argText(0), "'", "''") + "'"), true, nil
	case "abs":
		if anyNull() {
			return nil, true, nil
		}
		b, isNum, ok := asBig(coerceUnkInt(args[0]))
		if !ok {
			return nil, true, pgErr("42883", "abs(%s)", typeNameOf(args[0]))
		}
		r := new(big.Int).Abs(b)
		if isNum {
			return Numeric{r}, true, nil
		}
		return r.Int64(), true, nil
	case "mod":
		v, err := binaryOp("%", args[0], args[1])
		return v, true, err
	case "to_json", "to_jsonb":
		if len(args) != 1 {
			return nil, true, engineErr("%s arity", f.Name)
		}
		if args[0] == nil {
			return nil, true, nil
		}
		j, err := toJSON(args[0])
		if err != nil {
			return nil, true, err
		}
		if f.Name == "to_jsonb" {
			return j.Normalize(), true, nil
		}
		return j, true, nil
	case "json_build_object", "jsonb_build_object":
		if len(args)%2 != 0 {
			return nil, true, pgErr("22023", "argument list must have even number of elements")
		}
		out := jObject()
		for i := 0; i < len(args); i += 2 {
			if args[i] == nil {
				return nil, true, pgErr("22004", "argument %d cannot be null", i+1)
			}
			j, err := toJSON(args[i+1])
			if err != nil {
				return nil, true, err
			}
			out.set(argText(i), j)
		}
		if f.Name == "jsonb_build_object" {
			return out.Normalize(), true, nil
		}
		// doc 9.16 Table 9.47: json_build_object('foo', 1, 2, row(3,'a')) → {"foo" : 1, "2" : {"f1":3,"f2":"a"}}
		return pinJSONText(out, "{", ", ", " : ", "}"), true, nil
	case "json_build_array", "jsonb_build_array":
		out := &JSON{Kind: JArray, Arr: []*JSON{}}
		for _, a := range args {
			j, err := toJSON(a)
			if err != nil {
				return nil, true, err
			}
			out.Arr = append(out.Arr, j)
		}
		if f.Name == "jsonb_build_array" {
			return out.Normalize(), true, nil
		}
		// doc 9.16 Table 9.47: json_build_array(1, 2, 'foo', 4, 5) → [1, 2, "foo", 4, 5]
		return pinJSONText(out, "[", ", ", "", "]"), true, nil
	case "jsonb_concat":
		if anyNull() {
			return nil, true, nil
		}
		v, err := concatOp(args[0], args[1])
		return v, true, err
	case "jsonb_array_length", "json_array_length":
		if anyNull() {
			return nil, true, nil
		}
		j, err := asJSON(args[0])
		if err != nil {
			return nil, true, err
		}
		if j.Kind != JArray {
			return nil, true, pgErr("22023", "cannot get array length of %s", articleKind(j))
		}
		return int64(len(j.Arr)), true, nil
	case "jsonb_typeof", "json_typeof":
		if anyNull() {
			return nil, true, nil
		}
		j, err := asJSON(args[0])
		if err != nil {
			return nil, true, err
		}
		k := j.kindName()
		if k == "numeric" {
			k = "number"
		}
		return Text(k), true, nil
	case "jsonb_pretty":
		if anyNull() {
			return nil, true, nil
		}
		j, err := asJSONB(args[0])
		if err != nil {
			return nil, true, err
		}
		var sb strings.Builder
		jsonPretty(j, 0, &sb)
		return Text(sb.String()), true, nil
	case "jsonb_strip_nulls", "json_strip_nulls":
		if anyNull() {
			return nil, true, nil
		}
		j, err := asJSONArg(f.Name, args[0])
		if err != nil {
			return nil, true, err
		}
		return stripNulls(j), true, nil
	case "jsonb_set":
		if len(args) < 3 || args[0] == nil || args[1] == nil || args[2] == nil {
			return nil, true, nil
		}
		j, err := asJSONB(args[0])
		if err != nil {
			return nil, true, err
		}
		pv := args[1]
		if u, ok := pv.(Unk); ok {
			pv, err = parseArrayLiteral(string(u), "text")
			if err != nil {
				return nil, true, err
			}
		}
		pa, ok := pv.(*Array)
		if !ok {
			return nil, true, engineErr("jsonb_set path")
		}
		var path []string
		for _, it := range pa.Items {
			ps, _ := textOf(it)
			path = append(path, ps)
		}
		nv, err := asJSONB(args[2])
		if err != nil {
			return nil, true, err
		}
		create := true
		if len(args) > 3 {
			if b, ok := args[3].(bool); ok {
				create = b
			}
		}
		return jsonSet(j, path, nv, create).Normalize(), true, nil
	case "row_to_json":
		if anyNull() {
			return nil, true, nil
		}
		j, err := toJSON(args[0])
		return j, true, err
	case "string_to_array":
		if len(args) < 2 || args[0] == nil {
			return nil, true, nil
		}
		arr := &Array{Elem: "text"}
		src := argText(0)
		if src == "" {
			return arr, true, nil
		}
		if args[1] == nil {
			for _, r := range src {
				arr.Items = append(arr.Items, Text(string(r)))
			}
			return arr, true, nil
		}
		sep := argText(1)
		if sep == "" {
			arr.Items = append(arr.Items, Text(src))
			return arr, true, nil
		}
		for _, p := range strings.Split(src, sep) {
			arr.Items = append(arr.Items, Text(p))
		}
		// doc 9.19 string_to_array(string, delimiter [, null_string]): fields matching
		// null_string become NULL (`string_to_array('xx~~yy~~zz', '~~', 'yy')` → {xx,NULL,zz})
		if len(args) > 2 && args[2] != nil {
			ns := argText(2)
			for i, it := range arr.Items {
				if string(it.(Text)) == ns {
					arr.Items[i] = nil
				}
			}
		}
		return arr, true, nil
	case "array_to_string":
		if len(args) < 2 || args[0] == nil || args[1] == nil {
			return nil, true, nil
		}
		a, ok := args[0].(*Array)
		if !ok {
			return nil, true, pgErr("42883", "array_to_string(%s)", typeNameOf(args[0]))
		}
		var parts []string
		for _, it := range a.Items {
			if it == nil {
				if len(args) > 2 && args[2] != nil {
					parts = append(parts, argText(2))
				}
				continue
			}
			ps, _ := textOf(it)
			parts = append(parts, ps)
		}
		return Text(strings.Join(parts, argText(1))), true, nil
	case "array_length", "cardinality":
		if args[0] == nil {
			return nil, true, nil
		}
		a, ok := args[0].(*Array)
		if !ok {
			return nil, true, pgErr("42883", "%s(%s)", f.Name, typeNameOf(args[0]))
		}
		if len(a.Items) == 0 && f.Name == "array_length" {
			return nil, true, nil
		}
		return int64(len(a.Items)), true, nil
	case "array_append":
		a, _ := args[0].(*Array)
		out := &Array{}
		if a != nil {
			out.Elem = a.Elem
			out.Items = append(out.Items, a.Items...)
		}
		out.Items = append(out.Items, args[1])
		return out, true, nil
	case "format":
		return nil, true, engineErr("format() not supported")
	case "pg_typeof":
		return Text(typeNameOf(args[0])), true, nil
	case "txid_current":
		return int64(s.top), true, nil
	case "pg_sleep":
		return nil, true, nil
	case "gen_random_uuid":
		return nil, true, engineErr("gen_random_uuid not supported (nondeterministic)")
	case "to_char":
		return nil, true, engineErr("to_char not supported")
	case "date_trunc", "extract", "date_part", "age":
		return nil, true, engineErr("%s not supported", f.Name)
	case "row_number", "first_value":
		return nil, true, pgErr("42P20", "window function %s requires an OVER clause", f.Name)
	case "int8", "int4", "text", "numeric", "bool", "varchar", "timestamp", "jsonb", "json", "bytea":
		if len(args) == 1 {
			v, err := x.cast(args[0], f.Name)
			return v, true, err
		}
	}
	_ = strconv.Itoa
	_ = fmt.Sprint
	return nil, false, nil
}

func stripNulls(j *JSON) *JSON {
	switch j.Kind {
	case JObject:
		out := &JSON{Kind: JObject, B: j.B}
		for i, k := range j.Keys {
			if j.Vals[i].Kind == JNull {
				continue
			}
			out.set(k, stripNulls(j.Vals[i]))
		}
		return out
	case JArray:
		out := &JSON{Kind: JArray, B: j.B, Arr: []*JSON{}}
		for _, e := range j.Arr {
			out.Arr = append(out.Arr, stripNulls(e))
		}
		return out
	}
	return j
}

func jsonSet(j *JSON, path []string, nv *JSON, create bool) *JSON {
	if len(path) == 0 {
		return nv
	}
	switch j.Kind {
	case JObject:
		out := &JSON{Kind: JObject, B: true}
		found := false
		for i, k := range j.Keys {
			if k == path[0] {
				found = true
				out.set(k, jsonSet(j.Vals[i], path[1:], nv, create))
			} else {
				out.set(k, j.Vals[i])
			}
		}
		if !found && create && len(path) == 1 {
			out.set(path[0], nv)
		}
		return out
	case JArray:
		n, err := strconv.Atoi(path[0])
		if err != nil {
			return j
		}
		if n < 0 {
			n += len(j.Arr)
		}
		out := &JSON{Kind: JArray, B: true, Arr: append([]*JSON{}, j.Arr...)}
		if n >= 0 && n < len(out.Arr) {
			out.Arr[n] = jsonSet(out.Arr[n], path[1:], nv, create)
		} else if create && len(path) == 1 {
			if n < 0 {
				out.Arr = append([]*JSON{nv}, out.Arr...)
			} else {
				out.Arr = append(out.Arr, nv)
			}
		}
		return out
	}
	return j
}
