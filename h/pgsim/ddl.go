package pgsim

import (
	"fmt"
	"strings"
)

func (s *Session) pushUndo(f func()) { s.undo = append(s.undo, f) }

func (x *execCtx) execDDL(st Stmt) error {
	s := x.s
	db := s.db
	switch d := st.(type) {
	case *CreateSchema:
		if db.schemas[d.Name] != nil {
			if d.IfNotExists {
				return nil
			}
			return pgErr("42P06", "schema %q already exists", d.Name)
		}
		db.schemas[d.Name] = newSchema(d.Name)
		s.pushUndo(func() { delete(db.schemas, d.Name) })
		return nil
	case *CreateExtension:
		return nil
	case *CreateTable:
		return x.createTable(d)
	case *CreateIndex:
		return x.createIndex(d)
	case *CreateSequence:
		sc, err := s.creationSchema(d.Schema)
		if err != nil {
			return err
		}
		if sc.Seqs[d.Name] != nil {
			if d.IfNotExists {
				return nil
			}
			return pgErr("42P07", "relation %q already exists", d.Name)
		}
		q := &Sequence{Schema: sc.Name, Name: d.Name, Last: 1, Increment: 1, Cache: 1}
		if d.Start != 0 {
			q.Last = d.Start
		}
		if d.Increment != 0 {
			q.Increment = d.Increment
		}
		if d.Cache != 0 {
			q.Cache = d.Cache
		}
		sc.Seqs[d.Name] = q
		s.pushUndo(func() { delete(sc.Seqs, d.Name) })
		return nil
	case *CreateFunction:
		sc, err := s.creationSchema(d.Schema)
		if err != nil {
			return err
		}
		f := &Function{Schema: sc.Name, Name: d.Name, Params: d.Params, Returns: d.Returns, SetOf: d.ReturnsSetOf, Lang: d.Lang, Body: d.Body, Procedure: d.Procedure, Volatile: d.Volatility == "" || d.Volatility == "volatile"}
		switch d.SetPath {
		case "":
		case "<current>":
			f.SetPath = append([]string(nil), s.path()...)
		default:
			for _, p := range strings.Split(d.SetPath, ",") {
				f.SetPath = append(f.SetPath, strings.TrimSpace(p))
			}
		}
		old := sc.Funcs[d.Name]
		var kept []*Function
		replaced := false
		for _, o := range old {
			if sameSignature(o.Params, f.Params) {
				if !d.OrReplace {
					return pgErr("42723", "function %q already exists with same argument types", d.Name)
				}
				replaced = true
				continue
			}
			kept = append(kept, o)
		}
		_ = replaced
		sc.Funcs[d.Name] = append(kept, f)
		s.pushUndo(func() { sc.Funcs[d.Name] = old })
		return nil
	case *CreateAggregate:
		sc, err := s.creationSchema(d.Schema)
		if err != nil {
			return err
		}
		old := sc.Aggs[d.Name]
		if old != nil && !d.OrReplace {
			return pgErr("42723", "function %q already exists with same argument types", d.Name)
		}
		sc.Aggs[d.Name] = &Aggregate{Schema: sc.Name, Name: d.Name, SFunc: d.SFunc, SType: d.SType, InitCond: d.InitCond}
		s.pushUndo(func() {
			if old == nil {
				delete(sc.Aggs, d.Name)
			} else {
				sc.Aggs[d.Name] = old
			}
		})
		return nil
	case *CreateTrigger:
		t, err := s.findTable(d.Schema, d.Table)
		if err != nil {
			return err
		}
		for _, tg := range t.Triggers {
			if tg.Name == d.Name {
				return pgErr("42710", "trigger %q for relation %q already exists", d.Name, t.Name)
			}
		}
		tg := &Trigger{Name: d.Name, Timing: d.Timing, Events: d.Events, UpdateOf: d.UpdateOf, When: d.When, FuncSchema: d.FuncSchema, FuncName: d.FuncName, Deferred: d.Constraint && d.Deferred}
		if tg.FuncSchema == "" {
			// bind the function's schema now (triggers reference functions by OID)
			for _, p := range s.path() {
				if sc := db.schemas[p]; sc != nil && len(sc.Funcs[d.FuncName]) > 0 {
					tg.FuncSchema = p
					break
				}
			}
			if tg.FuncSchema == "" {
				return pgErr("42883", "function %s() does not exist", d.FuncName)
			}
		}
		old := t.Triggers
		t.Triggers = append(append([]*Trigger(nil), old...), tg)
		s.pushUndo(func() { t.Triggers = old })
		return nil
	case *CreateType:
		sc, err := s.creationSchema(d.Schema)
		if err != nil {
			return err
		}
		if sc.Types[d.Name] != nil {
			return pgErr("42710", "type %q already exists", d.Name)
		}
		fields := append([]ColDef(nil), d.Fields...)
		for i := range fields {
			if !strings.Contains(fields[i].Type, ".") {
				if td := s.findType(fields[i].Type); td != nil {
					fields[i].Type = td.Schema + "." + td.Name
				}
			}
		}
		if d.Fields == nil {
			fields = nil
		}
		sc.Types[d.Name] = &TypeDef{Schema: sc.Name, Name: d.Name, Enum: d.Enum, Fields: fields}
		if d.Enum == nil && d.Fields == nil {
			sc.Types[d.Name].Fields = []ColDef{}
		}
		s.pushUndo(func() { delete(sc.Types, d.Name) })
		return nil
	case *AlterTable:
		return x.alterTable(d)
	case *AlterIndexRename:
		for _, sc := range x.schemasFor(d.Schema) {
			for _, t := range sc.Tables {
				for _, ix := range t.Indexes {
					if ix.Name == d.Name {
						old := ix.Name
						ix.Name = d.NewName
						s.pushUndo(func() { ix.Name = old })
						return nil
					}
				}
			}
		}
		if d.IfExists {
			return nil
		}
		return pgErr("42P01", "relation %q does not exist", d.Name)
	case *AlterTypeAddValue:
		td := s.findType(joinQual(d.Schema, d.Name))
		if td == nil || td.Enum == nil {
			return pgErr("42704", "type %q does not exist", d.Name)
		}
		for _, l := range td.Enum {
			if l == d.Value {
				if d.IfNotExists {
					return nil
				}
				return pgErr("42710", "enum label %q already exists", d.Value)
			}
		}
		old := td.Enum
		td.Enum = append(append([]string(nil), old...), d.Value)
		s.pushUndo(func() { td.Enum = old })
		return nil
	case *Drop:
		if err := x.drop(d); err != nil {
			return err
		}
		for i := range d.More {
			m := d.More[i]
			m.Cascade = d.Cascade
			if err := x.drop(&m); err != nil {
				return err
			}
		}
		return nil
	}
	return engineErr("DDL %T not supported", st)
}

func joinQual(s, n string) string {
	if s == "" {
		return n
	}
	return s + "." + n
}

func sameSignature(a, b []FuncParam) bool {
	if len(a) != len(b) {
		return false
	}
	for i := range a {
		if baseType(a[i].Type) != baseType(b[i].Type) {
			return false
		}
	}
	return true
}

func (x *execCtx) schemasFor(schema string) []*Schema {
	db := x.s.db
	if schema != "" {
		if sc := db.schemas[schema]; sc != nil {
			return []*Schema{sc}
		}
		return nil
	}
	var out []*Schema
	for _, p := range x.s.path() {
		if sc := db.schemas[p]; sc != nil {
			out = append(out, sc)
		}
	}
	return out
}

func (x *execCtx) columnFromDef(t *Table, cd ColDef) (*Column, error) {
	s := x.s
	c := &Column{Name: cd.Name, Type: cd.Type, NotNull: cd.NotNull, Default: cd.Default, MaxLen: parseVarcharLen(cd.Type)}
	if cd.Default != nil {
		c.DefPath = append([]string(nil), s.path()...)
	}
	// user-defined types are bound when the column is created, not looked up through
	// the search_path of whoever touches the table later
	if !strings.Contains(c.Type, ".") {
		if td := s.findType(c.Type); td != nil {
			c.Type = td.Schema + "." + td.Name
		}
	}
	if cd.Serial {
		c.Type = "bigint"
		sc := s.db.schemas[t.Schema]
		seqName := fmt.Sprintf("%s_%s_seq", t.Name, cd.Name)
		if t.Temp || sc == nil {
			// temp tables: keep the sequence in public under a session-unique name
			sc = s.db.schemas["public"]
			seqName = fmt.Sprintf("pg_temp_%d_%s", s.ID, seqName)
		}
		for i := 1; sc.Seqs[seqName] != nil; i++ {
			seqName = fmt.Sprintf("%s_%s_seq%d", t.Name, cd.Name, i)
		}
		sc.Seqs[seqName] = &Sequence{Schema: sc.Name, Name: seqName, Last: 1, Increment: 1, Cache: 1}
		sn := seqName
		s.pushUndo(func() { delete(sc.Seqs, sn) })
		c.Default = &FuncX{Name: "nextval", Args: []Expr{&Lit{V: Unk(fmt.Sprintf("%q.%q", sc.Name, seqName))}}, ArgNames: []string{""}}
	}
	return c, nil
}

func (x *execCtx) createTable(d *CreateTable) error {
	s := x.s
	var exists *Table
	if d.Temp {
		exists = s.temp[d.Name]
	} else if sc, err := s.creationSchema(d.Schema); err == nil {
		exists = sc.Tables[d.Name]
	} else {
		return err
	}
	if exists != nil {
		if d.IfNotExists {
			return nil
		}
		return pgErr("42P07", "relation %q already exists", d.Name)
	}
	t := &Table{Name: d.Name, Temp: d.Temp, OnCommitDelete: d.OnCommit == "delete rows"}
	if d.Temp {
		t.Schema = "pg_temp"
	} else {
		sc, _ := s.creationSchema(d.Schema)
		t.Schema = sc.Name
	}
	var asRows *RowSet
	if d.As != nil {
		rs, err := x.child().runSelect(d.As, nil)
		if err != nil {
			return err
		}
		asRows = rs
		for i, cn := range rs.Cols {
			typ := "text"
			for _, r := range rs.Rows {
				if r[i] != nil {
					typ = typeNameOf(r[i])
					break
				}
			}
			t.Cols = append(t.Cols, &Column{Name: cn, Type: typ})
		}
	}
	for _, cd := range d.Cols {
		c, err := x.columnFromDef(t, cd)
		if err != nil {
			return err
		}
		t.Cols = append(t.Cols, c)
		if cd.PrimaryKey {
			t.Indexes = append(t.Indexes, &Index{Name: d.Name + "_pkey", Unique: true, Primary: true, Elems: []IndexElem{{Col: cd.Name}}})
		}
		if cd.Unique {
			t.Indexes = append(t.Indexes, &Index{Name: fmt.Sprintf("%s_%s_key", d.Name, cd.Name), Unique: true, Elems: []IndexElem{{Col: cd.Name}}})
		}
		if cd.Check != nil {
			t.Checks = append(t.Checks, &Check{Name: fmt.Sprintf("%s_%s_check", d.Name, cd.Name), X: cd.Check})
		}
	}
	for _, tc := range d.Constraints {
		if err := x.addConstraint(t, tc); err != nil {
			return err
		}
	}
	if d.Temp {
		s.temp[d.Name] = t
		s.pushUndo(func() { delete(s.temp, d.Name) })
	} else {
		sc := s.db.schemas[t.Schema]
		sc.Tables[d.Name] = t
		s.pushUndo(func() { delete(sc.Tables, d.Name) })
	}
	if asRows != nil {
		for _, r := range asRows.Rows {
			vals := append([]Value(nil), r...)
			for i, v := range vals {
				if u, ok := v.(Unk); ok {
					vals[i] = Text(u)
				}
			}
			t.Rows = append(t.Rows, &Row{Vals: vals, Xmin: s.cur, Cmin: x.cid})
		}
	}
	return nil
}

func (x *execCtx) addConstraint(t *Table, tc TableConstraint) error {
	switch tc.Kind {
	case "primary", "unique":
		if tc.UsingIndex != "" {
			for _, ix := range t.Indexes {
				if ix.Name == tc.UsingIndex {
					wasPrimary := ix.Primary
					ix.Primary = tc.Kind == "primary"
					var changed []*Column
					if tc.Kind == "primary" {
						for _, el := range ix.Elems {
							if i := t.colIndex(el.Col); i >= 0 && !t.Cols[i].NotNull {
								t.Cols[i].NotNull = true
								changed = append(changed, t.Cols[i])
							}
						}
					}
					x.s.pushUndo(func() {
						ix.Primary = wasPrimary
						for _, c := range changed {
							c.NotNull = false
						}
					})
					return nil
				}
			}
			return pgErr("42704", "index %q does not exist", tc.UsingIndex)
		}
		name := tc.Name
		if name == "" {
			if tc.Kind == "primary" {
				name = t.Name + "_pkey"
			} else {
				name = t.Name + "_" + strings.Join(tc.Cols, "_") + "_key"
			}
		}
		ix := &Index{Name: name, Unique: true, Primary: tc.Kind == "primary"}
		var changed []*Column
		for _, c := range tc.Cols {
			i := t.colIndex(c)
			if i < 0 {
				return pgErr("42703", "column %q named in key does not exist", c)
			}
			if tc.Kind == "primary" && !t.Cols[i].NotNull {
				t.Cols[i].NotNull = true
				changed = append(changed, t.Cols[i])
			}
			ix.Elems = append(ix.Elems, IndexElem{Col: c})
		}
		old := t.Indexes
		t.Indexes = append(append([]*Index(nil), old...), ix)
		x.s.pushUndo(func() {
			t.Indexes = old
			for _, c := range changed {
				c.NotNull = false
			}
		})
		return nil
	case "check":
		name := tc.Name
		if name == "" {
			name = t.Name + "_check"
		}
		old := t.Checks
		t.Checks = append(append([]*Check(nil), old...), &Check{Name: name, X: tc.Check})
		x.s.pushUndo(func() { t.Checks = old })
		return nil
	case "foreign":
		return nil // referential integrity is not modelled (no property depends on it)
	}
	return engineErr("constraint kind %q", tc.Kind)
}

func (x *execCtx) createIndex(d *CreateIndex) error {
	t, err := x.s.findTable(d.Schema, d.Table)
	if err != nil {
		return err
	}
	name := d.Name
	if name == "" {
		var parts []string
		for _, el := range d.Elems {
			if el.Col != "" {
				parts = append(parts, el.Col)
			} else {
				parts = append(parts, "expr")
			}
		}
		name = t.Name + "_" + strings.Join(parts, "_") + "_idx"
	}
	// index names are unique per schema
	if sc := x.s.db.schemas[t.Schema]; sc != nil {
		for _, ot := range sc.Tables {
			for _, ix := range ot.Indexes {
				if ix.Name == name {
					if d.IfNotExists {
						return nil
					}
					return pgErr("42P07", "relation %q already exists", name)
				}
			}
		}
	}
	for _, el := range d.Elems {
		if el.Col != "" && t.colIndex(el.Col) < 0 {
			return pgErr("42703", "column %q does not exist", el.Col)
		}
	}
	ix := &Index{Name: name, Unique: d.Unique, Elems: d.Elems, Where: d.Where}
	if d.Unique {
		// validate existing rows
		seen := map[string]bool{}
		for _, r := range t.Rows {
			if !x.s.db.rowVisible(r, x.snap) {
				continue
			}
			k, ok, err := x.indexKey(t, ix, r.Vals)
			if err != nil {
				return err
			}
			if !ok {
				continue
			}
			gk, _ := groupKey(k)
			if seen[gk] {
				return pgErr("23505", "could not create unique index %q", name)
			}
			seen[gk] = true
		}
	}
	old := t.Indexes
	t.Indexes = append(append([]*Index(nil), old...), ix)
	x.s.pushUndo(func() { t.Indexes = old })
	return nil
}

func (x *execCtx) alterTable(d *AlterTable) error {
	s := x.s
	t, err := s.findTable(d.Schema, d.Name)
	if err != nil {
		if d.IfExists {
			return nil
		}
		return err
	}
	for _, a := range d.Actions {
		switch a.Kind {
		case "add_column":
			if t.colIndex(a.Def.Name) >= 0 {
				if a.IfNotExists {
					continue
				}
				return pgErr("42701", "column %q of relation %q already exists", a.Def.Name, t.Name)
			}
			c, err := x.columnFromDef(t, a.Def)
			if err != nil {
				return err
			}
			oldCols := t.Cols
			t.Cols = append(append([]*Column(nil), oldCols...), c)
			type saved struct {
				r *Row
				v []Value
			}
			var sv []saved
			for _, r := range t.Rows {
				sv = append(sv, saved{r, r.Vals})
				dv, err := x.defaultFor(c)
				if err != nil {
					return err
				}
				r.Vals = append(append([]Value(nil), r.Vals...), dv)
			}
			oldIdx, oldChecks := t.Indexes, t.Checks
			if a.Def.PrimaryKey {
				t.Indexes = append(append([]*Index(nil), t.Indexes...), &Index{Name: t.Name + "_pkey", Unique: true, Primary: true, Elems: []IndexElem{{Col: c.Name}}})
			}
			if a.Def.Unique {
				t.Indexes = append(append([]*Index(nil), t.Indexes...), &Index{Name: fmt.Sprintf("%s_%s_key", t.Name, c.Name), Unique: true, Elems: []IndexElem{{Col: c.Name}}})
			}
			if a.Def.Check != nil {
				t.Checks = append(append([]*Check(nil), t.Checks...), &Check{Name: fmt.Sprintf("%s_%s_check", t.Name, c.Name), X: a.Def.Check})
			}
			s.pushUndo(func() {
				t.Cols = oldCols
				t.Indexes, t.Checks = oldIdx, oldChecks
				for _, e := range sv {
					e.r.Vals = e.v
				}
			})
		case "drop_column":
			ci := t.colIndex(a.Col)
			if ci < 0 {
				if a.IfExists {
					continue
				}
				return pgErr("42703", "column %q of relation %q does not exist", a.Col, t.Name)
			}
			oldCols, oldIdx := t.Cols, t.Indexes
			t.Cols = append(append([]*Column(nil), oldCols[:ci]...), oldCols[ci+1:]...)
			type saved struct {
				r *Row
				v []Value
			}
			var sv []saved
			for _, r := range t.Rows {
				sv = append(sv, saved{r, r.Vals})
				r.Vals = append(append([]Value(nil), r.Vals[:ci]...), r.Vals[ci+1:]...)
			}
			// indexes using the column are dropped with it
			var keptIdx []*Index
			for _, ix := range t.Indexes {
				uses := false
				for _, el := range ix.Elems {
					if el.Col == a.Col {
						uses = true
					}
				}
				if !uses {
					keptIdx = append(keptIdx, ix)
				}
			}
			t.Indexes = keptIdx
			s.pushUndo(func() {
				t.Cols, t.Indexes = oldCols, oldIdx
				for _, e := range sv {
					e.r.Vals = e.v
				}
			})
		case "alter_default", "drop_default", "set_not_null", "drop_not_null", "alter_type":
			ci := t.colIndex(a.Col)
			if ci < 0 {
				return pgErr("42703", "column %q of relation %q does not exist", a.Col, t.Name)
			}
			c := t.Cols[ci]
			old := *c
			switch a.Kind {
			case "alter_default":
				c.Default = a.Default
				c.DefPath = append([]string(nil), s.path()...)
			case "drop_default":
				c.Default = nil
			case "set_not_null":
				for _, r := range t.Rows {
					if s.db.rowVisible(r, x.snap) && r.Vals[ci] == nil {
						return pgErr("23502", "column %q of relation %q contains null values", a.Col, t.Name)
					}
				}
				c.NotNull = true
			case "drop_not_null":
				c.NotNull = false
			case "alter_type":
				c.Type = a.Type
				c.MaxLen = parseVarcharLen(a.Type)
				for _, r := range t.Rows {
					if r.Vals[ci] != nil {
						nv, err := x.cast(r.Vals[ci], a.Type)
						if err != nil {
							return err
						}
						r.Vals[ci] = nv
					}
				}
			}
			s.pushUndo(func() { *c = old })
		case "add_constraint":
			if err := x.addConstraint(t, a.Constraint); err != nil {
				return err
			}
		case "drop_constraint":
			found := false
			oldIdx, oldChecks := t.Indexes, t.Checks
			var ki []*Index
			for _, ix := range t.Indexes {
				if ix.Name == a.Col {
					found = true
					continue
				}
				ki = append(ki, ix)
			}
			var kc []*Check
			for _, ck := range t.Checks {
				if ck.Name == a.Col {
					found = true
					continue
				}
				kc = append(kc, ck)
			}
			if !found && !a.IfExists {
				return pgErr("42704", "constraint %q of relation %q does not exist", a.Col, t.Name)
			}
			t.Indexes, t.Checks = ki, kc
			s.pushUndo(func() { t.Indexes, t.Checks = oldIdx, oldChecks })
		case "validate_constraint":
			for _, ck := range t.Checks {
				if ck.Name == a.Col {
					for _, r := range t.Rows {
						if !s.db.rowVisible(r, x.snap) {
							continue
						}
						v, err := x.eval(ck.X, &scope{rels: []*relBinding{tableBinding(t, "", r.Vals, r)}})
						if err != nil {
							return err
						}
						if b, ok := v.(bool); ok && !b {
							return pgErr("23514", "check constraint %q of relation %q is violated by some row", ck.Name, t.Name)
						}
					}
				}
			}
		case "rename_column":
			ci := t.colIndex(a.Col)
			if ci < 0 {
				return pgErr("42703", "column %q does not exist", a.Col)
			}
			c := t.Cols[ci]
			oldName := c.Name
			c.Name = a.NewName
			var renamed []*Index
			for _, ix := range t.Indexes {
				for i := range ix.Elems {
					if ix.Elems[i].Col == oldName {
						// copy-on-write of the elems slice
						ne := append([]IndexElem(nil), ix.Elems...)
						ne[i].Col = a.NewName
						ix.Elems = ne
						renamed = append(renamed, ix)
					}
				}
			}
			s.pushUndo(func() {
				c.Name = oldName
				for _, ix := range renamed {
					ne := append([]IndexElem(nil), ix.Elems...)
					for i := range ne {
						if ne[i].Col == a.NewName {
							ne[i].Col = oldName
						}
					}
					ix.Elems = ne
				}
			})
		case "rename_table":
			sc := s.db.schemas[t.Schema]
			if sc == nil {
				return engineErr("rename of temp table")
			}
			oldName := t.Name
			delete(sc.Tables, oldName)
			t.Name = a.NewName
			sc.Tables[a.NewName] = t
			s.pushUndo(func() {
				delete(sc.Tables, a.NewName)
				t.Name = oldName
				sc.Tables[oldName] = t
			})
		case "set_storage", "rename_constraint":
		default:
			return engineErr("ALTER TABLE action %q", a.Kind)
		}
	}
	return nil
}

func (x *execCtx) drop(d *Drop) error {
	s := x.s
	db := s.db
	switch d.Kind {
	case "table":
		if d.Schema == "" {
			if t := s.temp[d.Name]; t != nil {
				delete(s.temp, d.Name)
				s.pushUndo(func() { s.temp[d.Name] = t })
				return nil
			}
		}
		for _, sc := range x.schemasFor(d.Schema) {
			if t := sc.Tables[d.Name]; t != nil {
				delete(sc.Tables, d.Name)
				sc := sc
				s.pushUndo(func() { sc.Tables[d.Name] = t })
				return nil
			}
		}
		if d.IfExists {
			return nil
		}
		return pgErr("42P01", "table %q does not exist", d.Name)
	case "index":
		for _, sc := range x.schemasFor(d.Schema) {
			for _, t := range sc.Tables {
				for i, ix := range t.Indexes {
					if ix.Name == d.Name {
						old := t.Indexes
						t.Indexes = append(append([]*Index(nil), old[:i]...), old[i+1:]...)
						t := t
						s.pushUndo(func() { t.Indexes = old })
						return nil
					}
				}
			}
		}
		if d.IfExists {
			return nil
		}
		return pgErr("42704", "index %q does not exist", d.Name)
	case "function":
		for _, sc := range x.schemasFor(d.Schema) {
			if fs := sc.Funcs[d.Name]; len(fs) > 0 {
				// overloads are told apart by parameter count (enough for the migrations)
				idx := -1
				for i, f := range fs {
					if d.NArgs < 0 || len(f.Params) == d.NArgs {
						idx = i
					}
				}
				if idx < 0 {
					continue
				}
				old := fs
				nf := append(append([]*Function(nil), fs[:idx]...), fs[idx+1:]...)
				if len(nf) == 0 {
					delete(sc.Funcs, d.Name)
				} else {
					sc.Funcs[d.Name] = nf
				}
				sc := sc
				s.pushUndo(func() { sc.Funcs[d.Name] = old })
				return nil
			}
		}
		if d.IfExists {
			return nil
		}
		return pgErr("42883", "function %s does not exist", d.Name)
	case "aggregate":
		for _, sc := range x.schemasFor(d.Schema) {
			if a := sc.Aggs[d.Name]; a != nil {
				delete(sc.Aggs, d.Name)
				sc := sc
				s.pushUndo(func() { sc.Aggs[d.Name] = a })
				return nil
			}
		}
		if d.IfExists {
			return nil
		}
		return pgErr("42883", "aggregate %s does not exist", d.Name)
	case "trigger":
		t, err := s.findTable(d.OnSchema, d.OnTable)
		if err != nil {
			if d.IfExists {
				return nil
			}
			return err
		}
		for i, tg := range t.Triggers {
			if tg.Name == d.Name {
				old := t.Triggers
				t.Triggers = append(append([]*Trigger(nil), old[:i]...), old[i+1:]...)
				s.pushUndo(func() { t.Triggers = old })
				return nil
			}
		}
		if d.IfExists {
			return nil
		}
		return pgErr("42704", "trigger %q for table %q does not exist", d.Name, t.Name)
	case "type":
		for _, sc := range x.schemasFor(d.Schema) {
			if td := sc.Types[d.Name]; td != nil {
				delete(sc.Types, d.Name)
				sc := sc
				s.pushUndo(func() { sc.Types[d.Name] = td })
				return nil
			}
		}
		if d.IfExists {
			return nil
		}
		return pgErr("42704", "type %q does not exist", d.Name)
	case "sequence":
		for _, sc := range x.schemasFor(d.Schema) {
			if q := sc.Seqs[d.Name]; q != nil {
				delete(sc.Seqs, d.Name)
				sc := sc
				s.pushUndo(func() { sc.Seqs[d.Name] = q })
				return nil
			}
		}
		if d.IfExists {
			return nil
		}
		return pgErr("42P01", "sequence %q does not exist", d.Name)
	case "schema":
		sc := db.schemas[d.Name]
		if sc == nil {
			if d.IfExists {
				return nil
			}
			return pgErr("3F000", "schema %q does not exist", d.Name)
		}
		delete(db.schemas, d.Name)
		s.pushUndo(func() { db.schemas[d.Name] = sc })
		return nil
	case "extension":
		return nil
	}
	return engineErr("DROP %s", d.Kind)
}
