package pgsim

import (
	"sort"
	"strconv"
	"strings"
	"sync"
)

type Column struct {
	Name    string
	Type    string // as written (lower-cased by the lexer unless quoted)
	NotNull bool
	Default Expr
	DefPath []string // search_path when the default was defined (functions are bound then)
	MaxLen  int // varchar(n), 0 = unlimited
}

type Row struct {
	Vals       []Value
	Xmin, Xmax uint64
	Cmin, Cmax uint32
	Next       *Row   // newer version created by the updater (Xmax)
	Locker     uint64 // xid of the (sub)transaction holding a FOR UPDATE lock
}

type Index struct {
	Name    string
	Unique  bool
	Elems   []IndexElem
	Where   Expr
	Primary bool
}

type Check struct {
	Name string
	X    Expr
}

type Trigger struct {
	Name       string
	Timing     string
	Events     []string
	UpdateOf   []string
	When       Expr
	FuncSchema string
	FuncName   string
	Deferred   bool
}

type Table struct {
	Schema, Name   string
	Cols           []*Column
	Rows           []*Row
	Indexes        []*Index
	Checks         []*Check
	Triggers       []*Trigger
	Temp           bool
	OnCommitDelete bool
}

func (t *Table) colIndex(name string) int {
	for i, c := range t.Cols {
		if c.Name == name {
			return i
		}
	}
	return -1
}

// qname is the schema-qualified name, used as the row type of the table.
func (t *Table) qname() string {
	if t.Schema == "" {
		return t.Name
	}
	return t.Schema + "." + t.Name
}

func (t *Table) colNames() []string {
	out := make([]string, len(t.Cols))
	for i, c := range t.Cols {
		out[i] = c.Name
	}
	return out
}

type Sequence struct {
	Schema, Name string
	Last         int64
	Called       bool
	Increment    int64 // >= 1
	Cache        int64 // >= 1: values a session pre-allocates at a time (CREATE SEQUENCE ... CACHE)
	epoch        int64 // reserved (cache invalidation on DROP/re-CREATE)
}

// seqCacheEntry is one session's pre-allocated range of a cached sequence.
type seqCacheEntry struct {
	next, end, last int64
	returned        bool
	epoch           int64
}

type Function struct {
	Schema, Name string
	Params       []FuncParam
	Returns      string
	SetOf        bool
	Lang         string
	Body         string
	SetPath      []string // search_path bound at creation ("set search_path from current")
	Procedure    bool
	Volatile     bool

	parseOnce sync.Once
	plBody    *plBlock
	sqlBody   []Stmt
	parseErr  error
}

type Aggregate struct {
	Schema, Name string
	SFunc        string
	SType        string
	InitCond     *string
}

type TypeDef struct {
	Schema, Name string
	Enum         []string
	Fields       []ColDef // composite
}

type Schema struct {
	Name   string
	Tables map[string]*Table
	Seqs   map[string]*Sequence
	Funcs  map[string][]*Function
	Aggs   map[string]*Aggregate
	Types  map[string]*TypeDef
}

func newSchema(name string) *Schema {
	return &Schema{Name: name, Tables: map[string]*Table{}, Seqs: map[string]*Sequence{}, Funcs: map[string][]*Function{}, Aggs: map[string]*Aggregate{}, Types: map[string]*TypeDef{}}
}

// ---------- name resolution ----------

func (s *Session) path() []string {
	if s.pathOverride != nil {
		return s.pathOverride
	}
	return s.searchPath
}

func (s *Session) findTable(schema, name string) (*Table, error) {
	db := s.db
	if schema != "" {
		if schema == "pg_temp" {
			if t := s.temp[name]; t != nil {
				return t, nil
			}
		}
		// a reference into a missing schema is reported as a missing relation (42P01)
		if sc := db.schemas[schema]; sc != nil {
			if t := sc.Tables[name]; t != nil {
				return t, nil
			}
		}
		return nil, pgErr("42P01", "relation \"%s.%s\" does not exist", schema, name)
	}
	if t := s.temp[name]; t != nil {
		return t, nil
	}
	for _, p := range s.path() {
		if sc := db.schemas[p]; sc != nil {
			if t := sc.Tables[name]; t != nil {
				return t, nil
			}
		}
	}
	return nil, pgErr("42P01", "relation %q does not exist", name)
}

func (s *Session) creationSchema(schema string) (*Schema, error) {
	if schema != "" {
		sc := s.db.schemas[schema]
		if sc == nil {
			return nil, pgErr("3F000", "schema %q does not exist", schema)
		}
		return sc, nil
	}
	for _, p := range s.path() {
		if sc := s.db.schemas[p]; sc != nil {
			return sc, nil
		}
	}
	return nil, pgErr("3F000", "no schema has been selected to create in")
}

func (s *Session) findSeq(schema, name string) (*Sequence, error) {
	if schema != "" {
		if sc := s.db.schemas[schema]; sc != nil {
			if q := sc.Seqs[name]; q != nil {
				return q, nil
			}
		}
		return nil, pgErr("42P01", "relation \"%s.%s\" does not exist", schema, name)
	}
	for _, p := range s.path() {
		if sc := s.db.schemas[p]; sc != nil {
			if q := sc.Seqs[name]; q != nil {
				return q, nil
			}
		}
	}
	return nil, pgErr("42P01", "relation %q does not exist", name)
}

func (s *Session) findFuncs(schema, name string) []*Function {
	if schema != "" {
		if sc := s.db.schemas[schema]; sc != nil {
			return sc.Funcs[name]
		}
		return nil
	}
	for _, p := range s.path() {
		if sc := s.db.schemas[p]; sc != nil {
			if f := sc.Funcs[name]; len(f) > 0 {
				return f
			}
		}
	}
	return nil
}

func (s *Session) findAgg(schema, name string) *Aggregate {
	if schema != "" {
		if sc := s.db.schemas[schema]; sc != nil {
			return sc.Aggs[name]
		}
		return nil
	}
	for _, p := range s.path() {
		if sc := s.db.schemas[p]; sc != nil {
			if a := sc.Aggs[name]; a != nil {
				return a
			}
		}
	}
	return nil
}

// findType resolves a possibly qualified user type name ("bucket.volumes" / "volumes").
func (s *Session) findType(name string) *TypeDef {
	name = strings.TrimSpace(name)
	if i := strings.IndexByte(name, '.'); i >= 0 {
		if sc := s.db.schemas[name[:i]]; sc != nil {
			return sc.Types[name[i+1:]]
		}
		return nil
	}
	for _, p := range s.path() {
		if sc := s.db.schemas[p]; sc != nil {
			if t := sc.Types[name]; t != nil {
				return t
			}
		}
	}
	return nil
}

// findRowType resolves a table name used as a composite type (e.g. parameter `r logs`).
func (s *Session) findRowType(name string) *Table {
	sch, n := "", name
	if i := strings.IndexByte(name, '.'); i >= 0 {
		sch, n = name[:i], name[i+1:]
	}
	t, err := s.findTable(sch, n)
	if err != nil {
		return nil
	}
	return t
}

// parseSeqName handles the argument of nextval('"bucket"."seq"') / nextval('s.q').
func parseQualifiedText(s string) (string, string, error) {
	toks, err := lex(s)
	if err != nil {
		return "", "", err
	}
	p := newParser(s, toks)
	a, b, err := p.qualName()
	if err != nil {
		return "", "", err
	}
	return a, b, nil
}

func parseVarcharLen(typ string) int {
	t := strings.ToLower(strings.TrimSpace(typ))
	if !strings.HasPrefix(t, "varchar(") && !strings.HasPrefix(t, "character varying(") && !strings.HasPrefix(t, "char(") {
		return 0
	}
	i := strings.IndexByte(t, '(')
	j := strings.IndexByte(t, ')')
	if i < 0 || j < i {
		return 0
	}
	n, err := strconv.Atoi(strings.TrimSpace(t[i+1 : j]))
	if err != nil {
		return 0
	}
	return n
}

func sortedKeys[V any](m map[string]V) []string {
	out := make([]string, 0, len(m))
	for k := range m {
		out = append(out, k)
	}
	sort.Strings(out)
	return out
}
