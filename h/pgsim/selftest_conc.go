package pgsim

// Case tables of the self-test, part 2: lock waits, EvalPlanQual re-check, unique-index
// waits, ON CONFLICT under concurrency, deadlocks. The blocking statement runs on its
// own goroutine (ModeFree); see selftest.go for how ordering is made deterministic.

import (
	"context"
	"errors"
	"fmt"
	"time"

	"github.com/jackc/pgx/v5/pgconn"
)

func stCasesConcurrency() []stCase {
	website := []stStep{
		q(`CREATE TABLE website (id int PRIMARY KEY, hits int)`, ""),
		q(`INSERT INTO website VALUES (1, 9), (2, 10)`, ""),
	}
	kv := []stStep{
		q(`CREATE TABLE u (k int PRIMARY KEY, v int)`, ""),
	}
	return []stCase{
		{
			Name: "update-waits-then-applies-to-updated-row",
			Rule: "13.2.1: a target row already updated by a concurrent uncommitted transaction makes the would-be updater wait; if the first updater commits, the second re-evaluates its WHERE on the updated version and proceeds from it (manual example: two UPDATE accounts SET balance = balance + 100 WHERE acctnum = 12345 both take effect)",
			Steps: []stStep{
				q(`CREATE TABLE accounts (acctnum int PRIMARY KEY, balance int)`, ""),
				q(`INSERT INTO accounts VALUES (12345, 100), (7534, 100)`, ""),
				on(1, `BEGIN`, ""),
				on(1, `UPDATE accounts SET balance = balance + 100 WHERE acctnum = 12345`, "N=1"),
				blocks(2, `UPDATE accounts SET balance = balance + 100 WHERE acctnum = 12345 RETURNING balance`),
				on(3, `SELECT balance FROM accounts WHERE acctnum = 12345`, "100"), // readers never block
				on(1, `COMMIT`, ""),
				released(2, "300"),
				on(3, `SELECT balance FROM accounts ORDER BY acctnum`, "100;300"),
			},
		},
		{
			Name: "update-waits-then-first-updater-rolls-back",
			Rule: "13.2.1: if the first updater rolls back, then its effects are negated and the second updater can proceed with updating the originally found row",
			Steps: []stStep{
				q(`CREATE TABLE accounts (acctnum int PRIMARY KEY, balance int)`, ""),
				q(`INSERT INTO accounts VALUES (12345, 100)`, ""),
				on(1, `BEGIN`, ""),
				on(1, `UPDATE accounts SET balance = balance + 100 WHERE acctnum = 12345`, "N=1"),
				blocks(2, `UPDATE accounts SET balance = balance + 1 WHERE acctnum = 12345 RETURNING balance`),
				on(1, `ROLLBACK`, ""),
				released(2, "101"),
			},
		},
		{
			Name: "delete-recheck-after-wait-website-example",
			Rule: "13.2.1 manual example: website has hits 9 and 10; BEGIN; UPDATE website SET hits = hits + 1; and concurrently DELETE FROM website WHERE hits = 10 — the DELETE has no effect: the pre-update 9 row is skipped, and when the UPDATE commits the locked row no longer matches (hits is now 11)",
			Steps: append(append([]stStep{}, website...),
				on(1, `BEGIN`, ""),
				on(1, `UPDATE website SET hits = hits + 1`, "N=2"),
				blocks(2, `DELETE FROM website WHERE hits = 10`),
				on(1, `COMMIT`, ""),
				released(2, "N=0"),
				on(2, `SELECT id, hits FROM website ORDER BY id`, "1|10;2|11"),
			),
		},
		{
			Name: "update-waits-row-deleted-is-ignored",
			Rule: "13.2.1: if the first updater commits, the second updater will ignore the row if the first updater deleted it",
			Steps: append(append([]stStep{}, website...),
				on(1, `BEGIN`, ""),
				on(1, `DELETE FROM website WHERE id = 2`, "N=1"),
				blocks(2, `UPDATE website SET hits = hits + 1 WHERE id = 2`),
				on(1, `COMMIT`, ""),
				released(2, "N=0"),
			),
		},
		{
			Name: "select-for-update-sees-no-rows-committed-after-its-snapshot",
			Rule: "13.2.1: UPDATE, DELETE, SELECT FOR UPDATE behave the same as SELECT in terms of searching for target rows: they only find rows committed as of the command start time; a found row that was updated meanwhile is returned in its updated version if it still satisfies the WHERE clause; the NEXT statement of the transaction sees the new row",
			Steps: []stStep{
				q(`CREATE TABLE qq (k int PRIMARY KEY, v int)`, ""),
				q(`INSERT INTO qq VALUES (1, 1), (2, 2)`, ""),
				on(1, `BEGIN`, ""),
				on(1, `UPDATE qq SET v = 10 WHERE k = 1`, "N=1"),
				on(2, `BEGIN`, ""),
				blocks(2, `SELECT k, v FROM qq WHERE v > 0 ORDER BY k FOR UPDATE`),
				on(1, `INSERT INTO qq VALUES (3, 3)`, "N=1"),
				on(1, `COMMIT`, ""),
				released(2, "1|10;2|2"),
				on(2, `SELECT count(*) FROM qq`, "3"),
				on(2, `COMMIT`, ""),
			},
		},
		{
			Name: "select-for-update-recheck-skips-non-qualifying-row",
			Rule: "13.2.1: the search condition of the command (the WHERE clause) is re-evaluated to see if the updated version of the row still matches; if not the row is skipped (SELECT FOR UPDATE locks and returns only rows that still qualify)",
			Steps: []stStep{
				q(`CREATE TABLE qq (k int PRIMARY KEY, v int)`, ""),
				q(`INSERT INTO qq VALUES (1, 1), (2, 2)`, ""),
				on(1, `BEGIN`, ""),
				on(1, `UPDATE qq SET v = 0 WHERE k = 1`, "N=1"),
				on(2, `BEGIN`, ""),
				blocks(2, `SELECT k, v FROM qq WHERE v > 0 ORDER BY k FOR UPDATE`),
				on(1, `COMMIT`, ""),
				released(2, "2|2"),
				// row 1 is not locked by session 2: session 1 can update it again at once
				on(1, `UPDATE qq SET v = 5 WHERE k = 1`, "N=1"),
				on(2, `COMMIT`, ""),
			},
		},
		{
			Name: "select-for-update-blocks-writers-not-readers",
			Rule: "13.3.2 Row-Level Locks, FOR UPDATE: the rows retrieved are locked as though for update — other transactions that attempt UPDATE, DELETE, SELECT FOR UPDATE of these rows block until the current transaction ends; row-level locks do not affect data querying",
			Steps: []stStep{
				q(`CREATE TABLE qq (k int PRIMARY KEY, v int)`, ""),
				q(`INSERT INTO qq VALUES (1, 1), (2, 2)`, ""),
				on(1, `BEGIN`, ""),
				on(1, `SELECT v FROM qq WHERE k = 1 FOR UPDATE`, "1"),
				on(2, `SELECT v FROM qq WHERE k = 1`, "1"),
				on(2, `UPDATE qq SET v = v + 1 WHERE k = 2`, "N=1"),
				blocks(3, `SELECT v FROM qq WHERE k = 1 FOR UPDATE`),
				on(1, `ROLLBACK`, ""),
				released(3, "1"),
				on(1, `BEGIN`, ""),
				on(1, `SELECT v FROM qq WHERE k = 1 FOR UPDATE`, "1"),
				blocks(2, `UPDATE qq SET v = v + 1 WHERE k = 1`),
				on(1, `COMMIT`, ""),
				released(2, "N=1"),
				on(3, `SELECT v FROM qq WHERE k = 1`, "2"),
			},
		},
		{
			Name: "select-for-update-order-by-may-return-out-of-order",
			Rule: "SELECT reference, The Locking Clause (Caution): at READ COMMITTED a SELECT with ORDER BY and a locking clause can return rows out of order — ORDER BY is applied first, the command may then block on a row lock, and once unblocked returns the updated column values in the already-sorted position",
			Steps: []stStep{
				q(`CREATE TABLE qq (k int PRIMARY KEY, v int)`, ""),
				q(`INSERT INTO qq VALUES (1, 1), (2, 2), (3, 3)`, ""),
				on(1, `BEGIN`, ""),
				on(1, `UPDATE qq SET v = 99 WHERE k = 1`, "N=1"),
				blocks(2, `SELECT k, v FROM qq ORDER BY v FOR UPDATE`),
				on(1, `COMMIT`, ""),
				released(2, "1|99;2|2;3|3"),
			},
		},
		{
			Name: "unique-index-wait-then-23505",
			Rule: "64.5 Index Uniqueness Checks: an inserter that finds a conflicting row inserted by a still-in-progress transaction must wait to see whether it commits; if it commits, the waiter gets a unique violation (23505) naming the constraint",
			Steps: append(append([]stStep{}, kv...),
				on(1, `BEGIN`, ""),
				on(1, `INSERT INTO u VALUES (1, 1)`, "N=1"),
				on(2, `INSERT INTO u VALUES (2, 2)`, "N=1"), // a different key does not wait
				blocks(2, `INSERT INTO u VALUES (1, 2)`),
				on(1, `COMMIT`, ""),
				released(2, "ERR 23505 u_pkey"),
				on(2, `SELECT k, v FROM u ORDER BY k`, "1|1;2|2"),
			),
		},
		{
			Name: "unique-index-wait-then-success-after-rollback",
			Rule: "64.5 Index Uniqueness Checks: if the conflicting inserter rolls back, there is no conflict and the waiting insertion proceeds",
			Steps: append(append([]stStep{}, kv...),
				on(1, `BEGIN`, ""),
				on(1, `INSERT INTO u VALUES (1, 1)`, "N=1"),
				blocks(2, `INSERT INTO u VALUES (1, 2)`),
				on(1, `ROLLBACK`, ""),
				released(2, "N=1"),
				on(2, `SELECT k, v FROM u`, "1|2"),
			),
		},
		{
			Name: "unique-index-wait-on-deleter",
			Rule: "64.5 Index Uniqueness Checks: if a conflicting valid row has been deleted by an as-yet-uncommitted transaction, the would-be inserter must wait to see if that deletion commits; after it commits the insert succeeds, after it rolls back it is a unique violation",
			Steps: append(append([]stStep{}, kv...),
				q(`INSERT INTO u VALUES (1, 1), (2, 2)`, ""),
				on(1, `BEGIN`, ""),
				on(1, `DELETE FROM u WHERE k = 1`, "N=1"),
				blocks(2, `INSERT INTO u VALUES (1, 5)`),
				on(1, `COMMIT`, ""),
				released(2, "N=1"),
				on(1, `BEGIN`, ""),
				on(1, `DELETE FROM u WHERE k = 2`, "N=1"),
				blocks(2, `INSERT INTO u VALUES (2, 5)`),
				on(1, `ROLLBACK`, ""),
				released(2, "ERR 23505 u_pkey"),
				on(2, `SELECT k, v FROM u ORDER BY k`, "1|5;2|2"),
			),
		},
		{
			Name: "on-conflict-do-nothing-waits-then-skips",
			Rule: "INSERT reference / 13.2.1: INSERT … ON CONFLICT DO NOTHING may have insertion not proceed for a row due to the outcome of another transaction whose effects are not visible to the INSERT snapshot; the inserter first waits for the in-progress conflicting insert, then skips the row (0 rows) if it committed, or inserts if it rolled back",
			Steps: append(append([]stStep{}, kv...),
				on(1, `BEGIN`, ""),
				on(1, `INSERT INTO u VALUES (1, 1)`, "N=1"),
				blocks(2, `INSERT INTO u VALUES (1, 2) ON CONFLICT DO NOTHING`),
				on(1, `COMMIT`, ""),
				released(2, "N=0"),
				on(2, `SELECT v FROM u WHERE k = 1`, "1"),
				on(1, `BEGIN`, ""),
				on(1, `INSERT INTO u VALUES (7, 1)`, "N=1"),
				blocks(2, `INSERT INTO u VALUES (7, 2) ON CONFLICT (k) DO NOTHING RETURNING v`),
				on(1, `ROLLBACK`, ""),
				released(2, "2"),
			),
		},
		{
			Name: "on-conflict-do-update-uses-newest-version-and-excluded",
			Rule: "INSERT reference: SET and WHERE in ON CONFLICT DO UPDATE have access to the existing row by the table's name and to the row proposed for insertion by the special excluded table; 13.2.1: in Read Committed each proposed row either inserts or updates — the UPDATE acts on the newest committed version of the conflicting row (after waiting for its in-progress updater)",
			Steps: append(append([]stStep{}, kv...),
				q(`INSERT INTO u VALUES (1, 0)`, ""),
				q(`INSERT INTO u VALUES (1, 5) ON CONFLICT (k) DO UPDATE SET v = u.v + excluded.v + 1 RETURNING v`, "6"),
				q(`INSERT INTO u VALUES (1, 5) ON CONFLICT (k) DO UPDATE SET v = excluded.v WHERE u.v > 100 RETURNING v`, "(0 rows)"),
				q(`SELECT v FROM u WHERE k = 1`, "6"),
				on(1, `BEGIN`, ""),
				on(1, `UPDATE u SET v = 10 WHERE k = 1`, "N=1"),
				blocks(2, `INSERT INTO u VALUES (1, 5) ON CONFLICT (k) DO UPDATE SET v = u.v + excluded.v RETURNING v`),
				on(1, `COMMIT`, ""),
				released(2, "15"),
			),
		},
		{
			Name: "on-conflict-do-update-affects-row-invisible-to-snapshot",
			Rule: "13.2.1: if a conflict originates in another transaction whose effects are not yet visible to the INSERT, the UPDATE clause will affect that row, even though possibly no version of that row is conventionally visible to the command",
			Steps: append(append([]stStep{}, kv...),
				on(1, `BEGIN`, ""),
				on(1, `INSERT INTO u VALUES (2, 10)`, "N=1"),
				blocks(2, `INSERT INTO u VALUES (2, 5) ON CONFLICT (k) DO UPDATE SET v = u.v + excluded.v RETURNING v`),
				on(1, `COMMIT`, ""),
				released(2, "15"),
			),
		},
		{
			Name: "on-conflict-do-update-cannot-affect-row-twice",
			Rule: "INSERT reference: ON CONFLICT DO UPDATE is deterministic — the command is not allowed to affect any single existing row more than once; a cardinality violation error (21000) is raised when this situation arises",
			Steps: append(append([]stStep{}, kv...),
				q(`INSERT INTO u VALUES (1, 1), (1, 2) ON CONFLICT (k) DO UPDATE SET v = excluded.v`, "ERR 21000"),
				q(`SELECT count(*) FROM u`, "0"),
			),
		},
		{
			Name: "partial-unique-index",
			Rule: "11.8 Partial Indexes, example 11.3 (partial unique index): uniqueness is enforced only among the rows that satisfy the index predicate; other rows are not constrained; the violation names the index",
			Steps: []stStep{
				q(`CREATE TABLE tx (id int, reference text)`, ""),
				q(`CREATE UNIQUE INDEX tx_reference ON tx (reference) WHERE reference <> ''`, ""),
				q(`INSERT INTO tx VALUES (1, ''), (2, ''), (3, 'a'), (4, NULL), (5, NULL)`, "N=5"),
				q(`INSERT INTO tx VALUES (6, 'a')`, "ERR 23505 tx_reference"),
				q(`INSERT INTO tx VALUES (6, 'b')`, "N=1"),
				q(`UPDATE tx SET reference = 'a' WHERE id = 1`, "ERR 23505 tx_reference"),
				q(`UPDATE tx SET reference = '' WHERE id = 3`, "N=1"),
				q(`INSERT INTO tx VALUES (7, 'a')`, "N=1"),
				q(`INSERT INTO tx VALUES (8, 'a') ON CONFLICT (reference) WHERE reference <> '' DO NOTHING`, "N=0"),
				q(`INSERT INTO tx VALUES (8, '') ON CONFLICT (reference) WHERE reference <> '' DO NOTHING`, "N=1"),
			},
		},
		{
			Name: "unique-violation-carries-constraint-name",
			Rule: "55.8 Error and Notice Message Fields ('n' constraint name) / Appendix A 23505 unique_violation; 5.4.3-5.4.4: a PRIMARY KEY or UNIQUE constraint is enforced by an index named after the constraint (default names <table>_pkey, <table>_<column>_key); multiple NULLs never conflict in a unique index",
			Fn:   stUniqueNameCase,
		},
		{
			Name: "deadlock-detected-40P01",
			Rule: "13.3.4 Deadlocks: PostgreSQL automatically detects deadlock situations and resolves them by aborting one of the transactions involved (40P01), allowing the other(s) to complete; which transaction is aborted should not be relied upon (manual example: two transactions updating accounts 11111 and 22222 in opposite order)",
			Fn:   stDeadlockCase,
		},
		{
			Name: "deadlock-row-lock-vs-advisory-lock",
			Rule: "13.3.4 + 13.3.5: deadlock detection covers every kind of lock wait — advisory locks are ordinary entries of the lock table (visible in pg_locks), so a cycle made of a row-lock wait and an advisory-lock wait is broken with 40P01 like any other",
			Fn:   stDeadlockAdvisoryCase,
		},
		{
			Name: "advisory-lock-wait-released-at-commit",
			Rule: "13.3.5 / 9.27.10: pg_advisory_xact_lock waits if the lock is held by another session and is granted once the holding transaction ends; a session-level lock is only released by pg_advisory_unlock (or session end)",
			Steps: []stStep{
				on(1, `BEGIN`, ""),
				on(1, `SELECT pg_advisory_xact_lock(7)`, ""),
				blocks(2, `SELECT pg_advisory_xact_lock(7)`),
				on(1, `COMMIT`, ""),
				released(2, ""),
				on(1, `SELECT pg_advisory_lock(8)`, ""),
				blocks(2, `SELECT pg_advisory_lock(8)`),
				on(1, `SELECT pg_advisory_unlock(8)`, "t"),
				released(2, ""),
				on(1, `SELECT pg_try_advisory_lock(8)`, "f"),
			},
		},
		{
			Name: "volatile-function-fresh-snapshot-per-statement",
			Rule: "38.7 Function Volatility Categories: VOLATILE functions obtain a fresh snapshot at the start of each query they execute (STABLE/IMMUTABLE use the calling query's snapshot) — a PL/pgSQL function sees rows committed by others between two of its statements",
			Steps: []stStep{
				q(`CREATE TABLE ft (x int)`, ""),
				q(`CREATE FUNCTION f() RETURNS text LANGUAGE plpgsql AS $$ DECLARE a int; b int; BEGIN SELECT count(*) INTO a FROM ft; PERFORM pg_advisory_xact_lock(9); SELECT count(*) INTO b FROM ft; RETURN a || '/' || b; END $$`, ""),
				on(1, `SELECT pg_advisory_lock(9)`, ""),
				blocks(2, `SELECT f()`),
				on(1, `INSERT INTO ft VALUES (1)`, "N=1"),
				on(1, `SELECT pg_advisory_unlock(9)`, "t"),
				released(2, "0/1"),
			},
		},
	}
}

// stUniqueNameCase checks constraint names natively and through the database/sql
// driver (what postgres.ResolveError consumes is *pgconn.PgError.ConstraintName).
func stUniqueNameCase(c *stCtx) error {
	steps := []stStep{
		q(`CREATE TABLE n (id int PRIMARY KEY, a text UNIQUE, b text, c int)`, ""),
		q(`CREATE UNIQUE INDEX n_b_c_idx ON n (b, c)`, ""),
		q(`INSERT INTO n VALUES (1, 'a', 'b', 1)`, "N=1"),
		q(`INSERT INTO n VALUES (1, 'x', 'x', 1)`, "ERR 23505 n_pkey"),
		q(`INSERT INTO n VALUES (2, 'a', 'x', 1)`, "ERR 23505 n_a_key"),
		q(`INSERT INTO n VALUES (2, 'x', 'b', 1)`, "ERR 23505 n_b_c_idx"),
		q(`INSERT INTO n VALUES (2, NULL, 'b', NULL)`, "N=1"),
		q(`INSERT INTO n VALUES (3, NULL, 'b', NULL)`, "N=1"),
		q(`UPDATE n SET id = 1 WHERE id = 2`, "ERR 23505 n_pkey"),
	}
	for _, st := range steps {
		if err := c.expect(1, st.SQL, st.Want); err != nil {
			return err
		}
	}
	sdb := Open(c.db, nil)
	defer sdb.Close()
	_, err := sdb.ExecContext(context.Background(), `INSERT INTO n VALUES (9, 'q', 'b', 1)`)
	var pe *pgconn.PgError
	if !errors.As(err, &pe) {
		return fmt.Errorf("driver: want *pgconn.PgError, got %T %v", err, err)
	}
	if pe.Code != "23505" || pe.ConstraintName != "n_b_c_idx" {
		return fmt.Errorf("driver: want 23505/n_b_c_idx, got %s/%q", pe.Code, pe.ConstraintName)
	}
	return nil
}

// stDeadlock drives a two-session deadlock. The victim is unspecified by the manual, so
// it only requires: session `first` blocks on its closing statement; when session `second`
// closes the cycle exactly one of the two statements fails with 40P01 (the other keeps
// waiting); the victim's transaction is aborted (25P02) and, once it has rolled back, the
// survivor's statement completes with `survivorWant`. It returns the surviving session.
func stDeadlock(c *stCtx, setup []stStep, first, second int, firstSQL, secondSQL, survivorWant string) (int, error) {
	for _, st := range setup {
		if err := c.expect(st.S, st.SQL, st.Want); err != nil {
			return 0, err
		}
	}
	if err := c.start(first, firstSQL); err != nil {
		return 0, fmt.Errorf("s%d %q: %v", first, stShort(firstSQL), err)
	}
	blocked, r, err := c.startMaybe(second, secondSQL)
	if err != nil {
		return 0, err
	}
	victim, survivor := 0, 0
	if !blocked {
		// returned at once: it must be the victim
		if !stMatch("ERR 40P01", r) {
			return 0, fmt.Errorf("s%d closing the cycle returned %s, want ERR 40P01 or a wait", second, stRender(r))
		}
		victim, survivor = second, first
	} else {
		// both parked: one of them must be woken with 40P01
		var got stRes
		select {
		case got = <-c.pending[first]:
			victim, survivor = first, second
		case got = <-c.pending[second]:
			victim, survivor = second, first
		case <-time.After(stTimeout):
			return 0, fmt.Errorf("deadlock not detected: both sessions still waiting after %s", stTimeout)
		}
		delete(c.pending, victim)
		if !stMatch("ERR 40P01", got) {
			return 0, fmt.Errorf("first statement to return in a deadlock: got %s, want ERR 40P01", stRender(got))
		}
	}
	if err := c.expect(victim, `SELECT 1`, "ERR 25P02"); err != nil {
		return 0, err
	}
	if err := c.expect(victim, `ROLLBACK`, ""); err != nil {
		return 0, err
	}
	res, err := c.join(survivor)
	if err != nil {
		return 0, err
	}
	if !stMatch(survivorWant, res) {
		return 0, fmt.Errorf("survivor s%d: got %s, want %s", survivor, stRender(res), stWantText(survivorWant))
	}
	if err := c.expect(survivor, `COMMIT`, ""); err != nil {
		return 0, err
	}
	return survivor, nil
}

// stDeadlockCase is the manual's example (13.3.4).
func stDeadlockCase(c *stCtx) error {
	survivor, err := stDeadlock(c, []stStep{
		on(1, `CREATE TABLE accounts (acctnum int PRIMARY KEY, balance int)`, ""),
		on(1, `INSERT INTO accounts VALUES (11111, 0), (22222, 0)`, ""),
		on(1, `BEGIN`, ""),
		on(2, `BEGIN`, ""),
		on(1, `UPDATE accounts SET balance = balance + 100 WHERE acctnum = 11111`, "N=1"),
		on(2, `UPDATE accounts SET balance = balance + 100 WHERE acctnum = 22222`, "N=1"),
	}, 2, 1,
		`UPDATE accounts SET balance = balance - 100 WHERE acctnum = 11111`,
		`UPDATE accounts SET balance = balance - 100 WHERE acctnum = 22222`, "N=1")
	if err != nil {
		return err
	}
	want := "11111|100;22222|-100"
	if survivor == 2 {
		want = "11111|-100;22222|100"
	}
	return c.expect(3, `SELECT acctnum, balance FROM accounts ORDER BY acctnum`, want)
}

// stDeadlockAdvisoryCase: a cycle made of one row lock and one advisory lock.
func stDeadlockAdvisoryCase(c *stCtx) error {
	survivor, err := stDeadlock(c, []stStep{
		on(1, `CREATE TABLE r (k int PRIMARY KEY, v int)`, ""),
		on(1, `INSERT INTO r VALUES (1, 0)`, ""),
		on(1, `BEGIN`, ""),
		on(2, `BEGIN`, ""),
		on(1, `SELECT pg_advisory_xact_lock(77)`, ""),
		on(2, `UPDATE r SET v = v + 2 WHERE k = 1`, "N=1"),
	}, 1, 2,
		`UPDATE r SET v = v + 1 WHERE k = 1`,
		`SELECT pg_advisory_xact_lock(77)`, "")
	if err != nil {
		return err
	}
	want := "1" // session 2 was the victim: only session 1's +1 (on the original row) survives
	if survivor == 2 {
		want = "2"
	}
	if err := c.expect(3, `SELECT v FROM r`, want); err != nil {
		return err
	}
	// every lock is gone
	return c.expect(3, `SELECT pg_try_advisory_lock(77)`, "t")
}
