package pgsim

import (
	"context"
	"errors"
	"strings"
	"testing"

	"github.com/jackc/pgx/v5/pgconn"
)

// A Late StmtFault: the statement runs, then fails. What it wrote goes away with the
// ROLLBACK TO SAVEPOINT / ROLLBACK that must follow (25P02 until then); the sequence value
// it drew does not come back (PostgreSQL manual 9.17: "nextval operations are never rolled
// back"). The same fault without Late fails the statement before it runs: no value drawn.
func TestLateStmtFault(t *testing.T) {
	ctx := context.Background()
	for _, late := range []bool{true, false} {
		armed := false
		db := Open(NewDB(), func(_ context.Context, _ *Session, op, sql string) error {
			if armed && op == "exec" && strings.HasPrefix(sql, "INSERT INTO lg") {
				armed = false
				return &StmtFault{Code: "40P01", Msg: "deadlock detected", Late: late}
			}
			return nil
		})
		db.SetMaxOpenConns(1)
		must := func(q string) {
			t.Helper()
			if _, err := db.ExecContext(ctx, q); err != nil {
				t.Fatalf("late=%v %s: %v", late, q, err)
			}
		}
		must(`CREATE SEQUENCE sq`)
		must(`CREATE TABLE lg (v bigint primary key)`)
		tx, err := db.BeginTx(ctx, nil)
		if err != nil {
			t.Fatal(err)
		}
		exec := func(q string) error { _, err := tx.ExecContext(ctx, q); return err }
		if err := exec(`INSERT INTO lg VALUES (nextval('sq'))`); err != nil { // 1
			t.Fatal(err)
		}
		if err := exec(`SAVEPOINT sp`); err != nil {
			t.Fatal(err)
		}
		armed = true
		err = exec(`INSERT INTO lg VALUES (nextval('sq'))`)
		var pe *pgconn.PgError
		if !errors.As(err, &pe) || pe.Code != "40P01" {
			t.Fatalf("late=%v: faulted insert returned %v, want 40P01", late, err)
		}
		if err := exec(`SELECT 1`); !errors.As(err, &pe) || pe.Code != "25P02" {
			t.Fatalf("late=%v: statement in the aborted transaction returned %v, want 25P02", late, err)
		}
		if err := exec(`ROLLBACK TO SAVEPOINT sp`); err != nil {
			t.Fatal(err)
		}
		if err := exec(`INSERT INTO lg VALUES (nextval('sq'))`); err != nil {
			t.Fatal(err)
		}
		if err := tx.Commit(); err != nil {
			t.Fatal(err)
		}
		var got []int64
		rows, err := db.QueryContext(ctx, `SELECT v FROM lg ORDER BY v`)
		if err != nil {
			t.Fatal(err)
		}
		for rows.Next() {
			var v int64
			if err := rows.Scan(&v); err != nil {
				t.Fatal(err)
			}
			got = append(got, v)
		}
		rows.Close()
		want := []int64{1, 2}
		if late {
			want = []int64{1, 3} // 2 was drawn by the statement that failed late
		}
		if len(got) != 2 || got[0] != want[0] || got[1] != want[1] {
			t.Fatalf("late=%v: rows %v, want %v", late, got, want)
		}
		// outside a transaction a late fault is refused (fail closed)
		armed = true
		if _, err := db.ExecContext(ctx, `INSERT INTO lg VALUES (nextval('sq'))`); late && (err == nil || !strings.Contains(err.Error(), "pgsim:")) {
			t.Fatalf("late fault outside a transaction: %v, want an engine error", err)
		}
		db.Close()
	}
}
