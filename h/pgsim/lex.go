package pgsim

import (
	"strings"
)

type tokKind int

const (
	tEOF tokKind = iota
	tIdent       // unquoted identifier or keyword, lower-cased in .s
	tQIdent      // "quoted identifier"
	tString      // 'string' (escapes resolved)
	tNumber
	tOp
	tParam // $1
)

type token struct {
	k        tokKind
	s        string
	pos, end int // byte offsets in the source
}

func (t token) isKw(kw string) bool { return t.k == tIdent && t.s == kw }
func (t token) isOp(op string) bool { return t.k == tOp && t.s == op }

var multiOps = []string{"->>", "#>>", "||", "::", "->", "#>", "@>", "<@", "@@", "?|", "?&", "<=", ">=", "<>", "!=", ":=", "..", "=>", "!~", "~*"}

func lex(src string) ([]token, error) {
	// pre-sized: growing by doubling turns every long statement into several
	// large-object allocations (mheap lock contention under parallel checks)
	toks := make([]token, 0, len(src)/4+16)
	i := 0
	n := len(src)
	for i < n {
		c := src[i]
		switch {
		case c == ' ' || c == '\t' || c == '\n' || c == '\r' || c == '\f':
			i++
		case c == '-' && i+1 < n && src[i+1] == '-':
			for i < n && src[i] != '\n' {
				i++
			}
		case c == '/' && i+1 < n && src[i+1] == '*':
			depth := 1
			j := i + 2
			for j < n && depth > 0 {
				if j+1 < n && src[j] == '/' && src[j+1] == '*' {
					depth++
					j += 2
				} else if j+1 < n && src[j] == '*' && src[j+1] == '/' {
					depth--
					j += 2
				} else {
					j++
				}
			}
			i = j
		case c == '\'':
			s, j, err := lexString(src, i, false)
			if err != nil {
				return nil, err
			}
			toks = append(toks, token{k: tString, s: s, pos: i, end: j})
			i = j
		case (c == 'e' || c == 'E') && i+1 < n && src[i+1] == '\'':
			s, j, err := lexString(src, i+1, true)
			if err != nil {
				return nil, err
			}
			toks = append(toks, token{k: tString, s: s, pos: i, end: j})
			i = j
		case c == '"':
			j := i + 1
			var sb strings.Builder
			for {
				if j >= n {
					return nil, pgErr("42601", "unterminated quoted identifier")
				}
				if src[j] == '"' {
					if j+1 < n && src[j+1] == '"' {
						sb.WriteByte('"')
						j += 2
						continue
					}
					j++
					break
				}
				sb.WriteByte(src[j])
				j++
			}
			toks = append(toks, token{k: tQIdent, s: sb.String(), pos: i, end: j})
			i = j
		case c == '$':
			// $1 param, or $tag$ dollar quote
			j := i + 1
			if j < n && src[j] >= '0' && src[j] <= '9' {
				for j < n && src[j] >= '0' && src[j] <= '9' {
					j++
				}
				toks = append(toks, token{k: tParam, s: src[i+1 : j], pos: i, end: j})
				i = j
				continue
			}
			for j < n && (isIdentChar(src[j])) && src[j] != '$' {
				j++
			}
			if j < n && src[j] == '$' {
				tag := src[i : j+1]
				endIdx := strings.Index(src[j+1:], tag)
				if endIdx < 0 {
					return nil, pgErr("42601", "unterminated dollar-quoted string")
				}
				body := src[j+1 : j+1+endIdx]
				e := j + 1 + endIdx + len(tag)
				toks = append(toks, token{k: tString, s: body, pos: i, end: e})
				i = e
				continue
			}
			return nil, pgErr("42601", "syntax error at or near \"$\"")
		case c >= '0' && c <= '9' || (c == '.' && i+1 < n && src[i+1] >= '0' && src[i+1] <= '9'):
			j := i
			for j < n && src[j] >= '0' && src[j] <= '9' {
				j++
			}
			if j < n && src[j] == '.' && !(j+1 < n && src[j+1] == '.') {
				j++
				for j < n && src[j] >= '0' && src[j] <= '9' {
					j++
				}
			}
			if j < n && (src[j] == 'e' || src[j] == 'E') {
				k := j + 1
				if k < n && (src[k] == '+' || src[k] == '-') {
					k++
				}
				if k < n && src[k] >= '0' && src[k] <= '9' {
					for k < n && src[k] >= '0' && src[k] <= '9' {
						k++
					}
					j = k
				}
			}
			toks = append(toks, token{k: tNumber, s: src[i:j], pos: i, end: j})
			i = j
		case isIdentStart(c):
			j := i
			for j < n && isIdentChar(src[j]) {
				j++
			}
			toks = append(toks, token{k: tIdent, s: strings.ToLower(src[i:j]), pos: i, end: j})
			i = j
		default:
			matched := false
			for _, op := range multiOps {
				if strings.HasPrefix(src[i:], op) {
					toks = append(toks, token{k: tOp, s: op, pos: i, end: i + len(op)})
					i += len(op)
					matched = true
					break
				}
			}
			if matched {
				continue
			}
			if strings.IndexByte("+-*/%<>=()[],;.:?^~#&|!@", c) >= 0 {
				toks = append(toks, token{k: tOp, s: string(c), pos: i, end: i + 1})
				i++
				continue
			}
			return nil, pgErr("42601", "syntax error at or near %q", string(c))
		}
	}
	toks = append(toks, token{k: tEOF, pos: n, end: n})
	return toks, nil
}

func isIdentStart(c byte) bool {
	return c == '_' || (c >= 'a' && c <= 'z') || (c >= 'A' && c <= 'Z') || c >= 0x80
}

func isIdentChar(c byte) bool {
	return isIdentStart(c) || (c >= '0' && c <= '9') || c == '$'
}

// lexString reads a quoted string starting at the opening quote.
func lexString(src string, i int, esc bool) (string, int, error) {
	n := len(src)
	j := i + 1
	var sb strings.Builder
	for {
		if j >= n {
			return "", 0, pgErr("42601", "unterminated quoted string")
		}
		c := src[j]
		if c == '\'' {
			if j+1 < n && src[j+1] == '\'' {
				sb.WriteByte('\'')
				j += 2
				continue
			}
			j++
			// adjacent string continuation across newline is not supported (unused)
			return sb.String(), j, nil
		}
		if esc && c == '\\' && j+1 < n {
			j++
			switch src[j] {
			case 'n':
				sb.WriteByte('\n')
			case 't':
				sb.WriteByte('\t')
			case 'r':
				sb.WriteByte('\r')
			case 'b':
				sb.WriteByte('\b')
			case 'f':
				sb.WriteByte('\f')
			case '\\':
				sb.WriteByte('\\')
			case '\'':
				sb.WriteByte('\'')
			case '"':
				sb.WriteByte('"')
			case 'x':
				k := j + 1
				v := 0
				cnt := 0
				for k < n && cnt < 2 && isHex(src[k]) {
					v = v*16 + hexVal(src[k])
					k++
					cnt++
				}
				if cnt == 0 {
					sb.WriteByte('x')
				} else {
					sb.WriteByte(byte(v))
					j = k - 1
				}
			case 'u':
				if j+4 < n {
					v := 0
					ok := true
					for k := j + 1; k <= j+4; k++ {
						if !isHex(src[k]) {
							ok = false
							break
						}
						v = v*16 + hexVal(src[k])
					}
					if ok {
						sb.WriteRune(rune(v))
						j += 4
						break
					}
				}
				sb.WriteByte('u')
			default:
				if src[j] >= '0' && src[j] <= '7' {
					v := 0
					k := j
					cnt := 0
					for k < n && cnt < 3 && src[k] >= '0' && src[k] <= '7' {
						v = v*8 + int(src[k]-'0')
						k++
						cnt++
					}
					sb.WriteByte(byte(v))
					j = k - 1
				} else {
					sb.WriteByte(src[j])
				}
			}
			j++
			continue
		}
		sb.WriteByte(c)
		j++
	}
}

func isHex(c byte) bool {
	return (c >= '0' && c <= '9') || (c >= 'a' && c <= 'f') || (c >= 'A' && c <= 'F')
}

func hexVal(c byte) int {
	switch {
	case c >= '0' && c <= '9':
		return int(c - '0')
	case c >= 'a' && c <= 'f':
		return int(c-'a') + 10
	}
	return int(c-'A') + 10
}

// splitStatements splits a multi-statement string at top-level semicolons.
func splitStatements(toks []token) [][]token {
	// fast path: a single statement without top-level ';' is returned as is (with its
	// EOF token, which parseStatement expects) instead of being copied
	if n := len(toks); n > 1 && toks[n-1].k == tEOF {
		single, d := true, 0
		for _, t := range toks[:n-1] {
			if t.k == tEOF {
				single = false
				break
			}
			if t.k == tOp {
				switch t.s {
				case "(", "[":
					d++
				case ")", "]":
					d--
				case ";":
					if d == 0 {
						single = false
					}
				}
			}
			if !single {
				break
			}
		}
		if single {
			return [][]token{toks}
		}
	}
	var out [][]token
	var cur []token
	depth := 0
	for _, t := range toks {
		if t.k == tEOF {
			break
		}
		if t.k == tOp {
			switch t.s {
			case "(", "[":
				depth++
			case ")", "]":
				depth--
			case ";":
				if depth == 0 {
					if len(cur) > 0 {
						out = append(out, cur)
					}
					cur = nil
					continue
				}
			}
		}
		cur = append(cur, t)
	}
	if len(cur) > 0 {
		out = append(out, cur)
	}
	return out
}
