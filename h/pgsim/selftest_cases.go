package pgsim

// Case tables of the self-test, part 1: visibility, transactions, sequences, advisory
// locks, triggers, defaults. Expected results come from the PostgreSQL 16 manual.

func q(sql, want string) stStep          { return stStep{S: 1, SQL: sql, Want: want} }
func on(s int, sql, want string) stStep  { return stStep{S: s, SQL: sql, Want: want} }
func blocks(s int, sql string) stStep    { return stStep{S: s, SQL: sql, Blocks: true} }
func released(s int, want string) stStep { return stStep{S: s, Join: true, Want: want} }

func selfTestCases() []stCase {
	var out []stCase
	out = append(out, stCasesVisibility()...)
	out = append(out, stCasesTx()...)
	out = append(out, stCasesSequences()...)
	out = append(out, stCasesTriggers()...)
	out = append(out, stCasesConcurrency()...)
	out = append(out, stCasesValues()...)
	out = append(out, stCasesJSON()...)
	out = append(out, stCasesQueries()...)
	out = append(out, stCasesMore()...)
	return out
}

func stCasesVisibility() []stCase {
	return []stCase{
		{
			Name: "rc-snapshot-per-statement",
			Rule: "13.2.1 Read Committed: a SELECT sees a snapshot as of the start of the statement; two successive SELECTs in one transaction can see different data if another transaction commits in between",
			Steps: []stStep{
				q(`CREATE TABLE t (k int PRIMARY KEY, v int)`, ""),
				on(1, `BEGIN`, ""),
				on(1, `SELECT count(*) FROM t`, "0"),
				on(2, `INSERT INTO t VALUES (1, 10)`, "N=1"),
				on(1, `SELECT count(*) FROM t`, "1"),
				on(1, `COMMIT`, ""),
			},
		},
		{
			Name: "rc-no-dirty-read-own-writes-visible",
			Rule: "13.2.1 Read Committed: a SELECT never sees uncommitted data of concurrent transactions, but does see the effects of previous updates executed within its own transaction",
			Steps: []stStep{
				q(`CREATE TABLE t (k int PRIMARY KEY, v int)`, ""),
				on(2, `BEGIN`, ""),
				on(2, `INSERT INTO t VALUES (2, 20)`, "N=1"),
				on(2, `SELECT count(*) FROM t`, "1"),
				on(1, `SELECT count(*) FROM t`, "0"),
				on(2, `COMMIT`, ""),
				on(1, `SELECT count(*) FROM t`, "1"),
				on(2, `BEGIN`, ""),
				on(2, `UPDATE t SET v = 21 WHERE k = 2`, "N=1"),
				on(1, `SELECT v FROM t WHERE k = 2`, "20"),
				on(2, `ROLLBACK`, ""),
				on(1, `SELECT v FROM t WHERE k = 2`, "20"),
			},
		},
		{
			Name: "own-writes-invisible-to-same-statement",
			Rule: "47.5 Visibility of Data Changes: during the execution of an SQL command, data changes made by the command are invisible to the command itself (INSERT INTO a SELECT * FROM a: the inserted rows are invisible to the SELECT part)",
			Steps: []stStep{
				q(`CREATE TABLE a (x int)`, ""),
				q(`INSERT INTO a VALUES (1),(2),(3)`, "N=3"),
				q(`INSERT INTO a SELECT x + 10 FROM a`, "N=3"),
				q(`SELECT count(*), sum(x) FROM a`, "6|42"),
				q(`UPDATE a SET x = x + 100`, "N=6"),
				q(`SELECT min(x), max(x) FROM a`, "101|113"),
			},
		},
		{
			Name: "update-set-uses-old-row-values",
			Rule: "UPDATE reference: an expression in SET can use the old values of this and other columns of the row (a = b, b = a swaps)",
			Steps: []stStep{
				q(`CREATE TABLE s (a int, b int)`, ""),
				q(`INSERT INTO s VALUES (1, 2)`, ""),
				q(`UPDATE s SET a = b, b = a`, "N=1"),
				q(`SELECT a, b FROM s`, "2|1"),
			},
		},
		{
			Name: "cte-data-modifying-same-snapshot",
			Rule: "7.8.4 Data-Modifying Statements in WITH: all the statements are executed with the same snapshot, so they cannot see one another's effects on the target tables; RETURNING data is the only way to communicate changes (manual example: WITH t AS (UPDATE products SET price = price * 1.05 RETURNING *) SELECT * FROM products returns the old prices, SELECT * FROM t the new ones)",
			Steps: []stStep{
				q(`CREATE TABLE products (id int, price int)`, ""),
				q(`INSERT INTO products VALUES (1, 100), (2, 200)`, ""),
				q(`WITH t AS (UPDATE products SET price = price * 2 RETURNING *) SELECT id, price FROM products ORDER BY id`, "1|100;2|200"),
				q(`SELECT id, price FROM products ORDER BY id`, "1|200;2|400"),
				q(`WITH t AS (UPDATE products SET price = price + 1 RETURNING *) SELECT id, price FROM t ORDER BY id`, "1|201;2|401"),
			},
		},
		{
			Name: "cte-data-modifying-runs-once-to-completion",
			Rule: "7.8.4: data-modifying statements in WITH are executed exactly once, and always to completion, independently of whether the primary query reads all (or indeed any) of their output",
			Steps: []stStep{
				q(`CREATE TABLE p (id int)`, ""),
				q(`WITH t AS (INSERT INTO p VALUES (3), (4) RETURNING id) SELECT 1`, "1"),
				q(`SELECT count(*) FROM p`, "2"),
				q(`WITH t AS (INSERT INTO p VALUES (5), (6) RETURNING id) SELECT id FROM t LIMIT 1`, "5"),
				q(`SELECT count(*) FROM p`, "4"),
				q(`WITH t AS (DELETE FROM p WHERE id >= 5 RETURNING id) SELECT count(*) FROM t`, "2"),
				q(`SELECT count(*) FROM p`, "2"),
			},
		},
		{
			Name: "cte-move-rows-between-tables",
			Rule: "7.8.4 manual example: WITH moved_rows AS (DELETE FROM products WHERE … RETURNING *) INSERT INTO products_log SELECT * FROM moved_rows moves the rows",
			Steps: []stStep{
				q(`CREATE TABLE src (x int)`, ""),
				q(`CREATE TABLE dst (x int)`, ""),
				q(`INSERT INTO src VALUES (1),(2),(3)`, ""),
				q(`WITH moved AS (DELETE FROM src WHERE x >= 2 RETURNING *) INSERT INTO dst SELECT * FROM moved`, "N=2"),
				q(`SELECT count(*) FROM src`, "1"),
				q(`SELECT x FROM dst ORDER BY x`, "2;3"),
			},
		},
		{
			Name: "cte-insert-invisible-to-main-select-for-update",
			Rule: "7.8.4: the main query and the WITH sub-statements share one snapshot; a row inserted by a WITH INSERT … ON CONFLICT DO NOTHING is not visible to (and not locked by) the main SELECT … FOR UPDATE of the same statement",
			Steps: []stStep{
				q(`CREATE TABLE acc (k text PRIMARY KEY, v int)`, ""),
				q(`INSERT INTO acc VALUES ('old', 1)`, ""),
				q(`WITH ins AS (INSERT INTO acc VALUES ('a', 0), ('old', 9) ON CONFLICT DO NOTHING) SELECT k, v FROM acc WHERE k IN ('a', 'old') ORDER BY k FOR UPDATE`, "old|1"),
				q(`SELECT k, v FROM acc ORDER BY k`, "a|0;old|1"),
			},
		},
		{
			Name:  "cte-execution-order-unreferenced-after-main",
			Basis: "executor",
			Rule:  "execMain.c ExecPostprocessPlan: 'Run any secondary ModifyTable nodes to completion, in case the main query did not fetch all rows from them' — a data-modifying CTE the main query never references runs AFTER the main query (the manual, 7.8.4, only says the order is unpredictable); observed through a sequence",
			Steps: []stStep{
				q(`CREATE SEQUENCE sq`, ""),
				q(`CREATE TABLE lg (v bigint)`, ""),
				q(`WITH w AS (INSERT INTO lg VALUES (nextval('sq'))) SELECT nextval('sq')`, "1"),
				q(`SELECT v FROM lg`, "2"),
			},
		},
		{
			Name:  "cte-execution-order-referenced-on-first-scan",
			Basis: "executor",
			Rule:  "nodeCtescan.c: a CTE is evaluated when the CTE scan first pulls from it — a referenced data-modifying CTE runs when first scanned, i.e. before the target list of the main query is evaluated for its row and not before an earlier UNION ALL branch (Append runs its children in order); observed through a sequence, one row per CTE so that lazy and eager evaluation agree",
			Steps: []stStep{
				q(`CREATE SEQUENCE sq`, ""),
				q(`CREATE TABLE lg (v bigint)`, ""),
				q(`WITH w AS (INSERT INTO lg VALUES (nextval('sq')) RETURNING v) SELECT v, nextval('sq') FROM w`, "1|2"),
				q(`WITH w AS (INSERT INTO lg VALUES (nextval('sq')) RETURNING v) SELECT nextval('sq') UNION ALL SELECT v FROM w`, "3;4"),
				q(`SELECT v FROM lg ORDER BY v`, "1;4"),
			},
		},
	}
}

func stCasesTx() []stCase {
	return []stCase{
		{
			Name: "aborted-transaction-25P02-until-rollback",
			Rule: "Appendix A 25P02 in_failed_sql_transaction / 3.4 Transactions: after an error inside a transaction block every later command fails ('current transaction is aborted, commands ignored until end of transaction block') until ROLLBACK; nothing of the transaction persists, and COMMIT of an aborted transaction rolls back",
			Steps: []stStep{
				q(`CREATE TABLE t (k int PRIMARY KEY)`, ""),
				q(`BEGIN`, ""),
				q(`INSERT INTO t VALUES (1)`, "N=1"),
				q(`SELECT 1/0`, "ERR 22012"),
				q(`SELECT 1`, "ERR 25P02"),
				q(`INSERT INTO t VALUES (2)`, "ERR 25P02"),
				q(`SAVEPOINT a`, "ERR 25P02"),
				q(`ROLLBACK`, ""),
				q(`SELECT 1`, "1"),
				q(`SELECT count(*) FROM t`, "0"),
				q(`BEGIN`, ""),
				q(`INSERT INTO t VALUES (1)`, "N=1"),
				q(`INSERT INTO t VALUES (1)`, "ERR 23505 t_pkey"),
				q(`COMMIT`, ""),
				q(`SELECT count(*) FROM t`, "0"),
			},
		},
		{
			Name: "autocommit-statement-error-rolls-back-statement-only",
			Rule: "3.4 Transactions: without BEGIN each statement is its own transaction; a failing multi-row statement leaves nothing behind and later statements work",
			Steps: []stStep{
				q(`CREATE TABLE t (k int PRIMARY KEY)`, ""),
				q(`INSERT INTO t VALUES (1)`, "N=1"),
				q(`INSERT INTO t VALUES (2), (1), (3)`, "ERR 23505 t_pkey"),
				q(`SELECT k FROM t ORDER BY k`, "1"),
			},
		},
		{
			Name: "rollback-to-savepoint-restores-usability",
			Rule: "SAVEPOINT / ROLLBACK TO SAVEPOINT reference: ROLLBACK TO rolls back all commands executed after the savepoint and the transaction is usable again (manual example: insert 1, savepoint, insert 2, rollback to, insert 3, commit leaves 1 and 3); the savepoint remains valid and can be rolled back to again",
			Steps: []stStep{
				q(`CREATE TABLE t (k int PRIMARY KEY)`, ""),
				q(`BEGIN`, ""),
				q(`INSERT INTO t VALUES (1)`, ""),
				q(`SAVEPOINT my_savepoint`, ""),
				q(`INSERT INTO t VALUES (2)`, ""),
				q(`ROLLBACK TO SAVEPOINT my_savepoint`, ""),
				q(`INSERT INTO t VALUES (3)`, ""),
				q(`COMMIT`, ""),
				q(`SELECT k FROM t ORDER BY k`, "1;3"),
				q(`BEGIN`, ""),
				q(`SAVEPOINT a`, ""),
				q(`INSERT INTO t VALUES (1)`, "ERR 23505 t_pkey"),
				q(`SELECT 1`, "ERR 25P02"),
				q(`ROLLBACK TO a`, ""),
				q(`SELECT 1`, "1"),
				q(`INSERT INTO t VALUES (4)`, "N=1"),
				q(`INSERT INTO t VALUES (4)`, "ERR 23505 t_pkey"),
				q(`ROLLBACK TO a`, ""),
				q(`INSERT INTO t VALUES (5)`, "N=1"),
				q(`COMMIT`, ""),
				q(`SELECT k FROM t ORDER BY k`, "1;3;5"),
			},
		},
		{
			Name: "release-savepoint-keeps-effects-rollback-to-unknown-fails",
			Rule: "RELEASE SAVEPOINT reference: destroys the savepoint but keeps the effects of commands executed after it; ROLLBACK TO an undefined savepoint is an error (3B001)",
			Steps: []stStep{
				q(`CREATE TABLE t (k int PRIMARY KEY)`, ""),
				q(`BEGIN`, ""),
				q(`SAVEPOINT a`, ""),
				q(`INSERT INTO t VALUES (1)`, ""),
				q(`RELEASE SAVEPOINT a`, ""),
				q(`ROLLBACK TO a`, "ERR 3B001"),
				q(`ROLLBACK`, ""),
				q(`BEGIN`, ""),
				q(`SAVEPOINT a`, ""),
				q(`INSERT INTO t VALUES (1)`, ""),
				q(`RELEASE SAVEPOINT a`, ""),
				q(`COMMIT`, ""),
				q(`SELECT k FROM t`, "1"),
			},
		},
		{
			Name: "savepoint-rows-visibility-other-session",
			Rule: "13.2.1 + SAVEPOINT: rows of a rolled-back subtransaction never become visible to anybody, rows of the surviving part become visible at COMMIT",
			Steps: []stStep{
				q(`CREATE TABLE t (k int PRIMARY KEY)`, ""),
				on(1, `BEGIN`, ""),
				on(1, `INSERT INTO t VALUES (1)`, ""),
				on(1, `SAVEPOINT a`, ""),
				on(1, `INSERT INTO t VALUES (2)`, ""),
				on(1, `SELECT count(*) FROM t`, "2"),
				on(2, `SELECT count(*) FROM t`, "0"),
				on(1, `ROLLBACK TO a`, ""),
				on(1, `SELECT count(*) FROM t`, "1"),
				on(1, `COMMIT`, ""),
				on(2, `SELECT k FROM t`, "1"),
				on(2, `INSERT INTO t VALUES (2)`, "N=1"),
			},
		},
	}
}

func stCasesSequences() []stCase {
	return []stCase{
		{
			Name: "nextval-not-rolled-back",
			Rule: "9.17 Sequence Manipulation Functions: to avoid blocking concurrent transactions, the value obtained by nextval is not reclaimed if the calling transaction later aborts; nextval operations are never rolled back",
			Steps: []stStep{
				q(`CREATE SEQUENCE sq`, ""),
				q(`BEGIN`, ""),
				q(`SELECT nextval('sq')`, "1"),
				q(`ROLLBACK`, ""),
				q(`SELECT nextval('sq')`, "2"),
				q(`CREATE TABLE t (id bigserial PRIMARY KEY, v int UNIQUE)`, ""),
				q(`INSERT INTO t (v) VALUES (1)`, ""),
				q(`INSERT INTO t (v) VALUES (1)`, "ERR 23505 t_v_key"),
				q(`INSERT INTO t (v) VALUES (2) RETURNING id`, "3"),
			},
		},
		{
			Name: "setval-is-called-flag",
			Rule: "9.17 setval: setval('myseq', 42) → next nextval returns 43; setval('myseq', 42, true) → 43; setval('myseq', 42, false) → next nextval returns 42; the result of setval is its second argument; with is_called = false the value reported by currval is not changed; setval is never rolled back",
			Steps: []stStep{
				q(`CREATE SEQUENCE myseq`, ""),
				q(`SELECT setval('myseq', 42)`, "42"),
				q(`SELECT currval('myseq')`, "42"),
				q(`SELECT nextval('myseq')`, "43"),
				q(`SELECT setval('myseq', 42, true)`, "42"),
				q(`SELECT nextval('myseq')`, "43"),
				q(`SELECT setval('myseq', 42, false)`, "42"),
				q(`SELECT currval('myseq')`, "43"), // "the value reported by currval is not changed in this case"
				q(`SELECT nextval('myseq')`, "42"),
				q(`SELECT nextval('myseq')`, "43"),
				q(`BEGIN`, ""),
				q(`SELECT setval('myseq', 100, false)`, "100"),
				q(`ROLLBACK`, ""),
				q(`SELECT nextval('myseq')`, "100"),
			},
		},
		{
			Name: "currval-is-session-local",
			Rule: "9.17 currval: returns the value most recently obtained by nextval for this sequence in the current session (an error is reported if nextval has never been called for this sequence in this session); it gives a predictable answer whether or not other sessions have executed nextval since",
			Steps: []stStep{
				q(`CREATE SEQUENCE sq`, ""),
				on(2, `SELECT currval('sq')`, "ERR 55000"),
				on(1, `SELECT nextval('sq')`, "1"),
				on(2, `SELECT currval('sq')`, "ERR 55000"),
				on(2, `SELECT nextval('sq')`, "2"),
				on(1, `SELECT currval('sq')`, "1"),
				on(2, `SELECT currval('sq')`, "2"),
			},
		},
		{
			Name: "create-sequence-start-increment",
			Rule: "CREATE SEQUENCE reference: START WITH sets the first value returned, INCREMENT BY the step",
			Steps: []stStep{
				q(`CREATE SEQUENCE sq START WITH 5 INCREMENT BY 3`, ""),
				q(`SELECT nextval('sq')`, "5"),
				q(`SELECT nextval('sq')`, "8"),
			},
		},
		{
			Name: "sequence-cache-per-session-preallocation",
			Rule: "CREATE SEQUENCE reference, Notes: with a cache setting of 10, session A might reserve values 1..10 and return nextval=1, then session B might reserve values 11..20 and return nextval=11 before session A has generated nextval=2",
			Steps: []stStep{
				q(`CREATE SEQUENCE sq CACHE 10`, ""),
				on(1, `SELECT nextval('sq')`, "1"),
				on(2, `SELECT nextval('sq')`, "11"),
				on(1, `SELECT nextval('sq')`, "2"),
				on(2, `SELECT nextval('sq')`, "12"),
				on(3, `SELECT nextval('sq')`, "21"),
				on(1, `SELECT currval('sq')`, "2"),
			},
		},
		{
			Name: "advisory-xact-lock-released-at-commit-session-lock-not",
			Rule: "13.3.5 Advisory Locks: a session-level advisory lock is held until explicitly released or the session ends and does not honor transaction semantics (a lock acquired in a transaction that is rolled back is still held); transaction-level locks are automatically released at the end of the transaction; 9.27.10: pg_try_advisory_lock returns false instead of waiting; a session may acquire the same lock repeatedly and must release it as many times",
			Steps: []stStep{
				on(1, `BEGIN`, ""),
				on(1, `SELECT pg_advisory_xact_lock(1)`, ""),
				on(2, `SELECT pg_try_advisory_lock(1)`, "f"),
				on(1, `SELECT pg_try_advisory_xact_lock(1)`, "t"),
				on(1, `COMMIT`, ""),
				on(2, `SELECT pg_try_advisory_lock(1)`, "t"),
				on(2, `SELECT pg_advisory_unlock(1)`, "t"),
				on(2, `SELECT pg_advisory_unlock(1)`, "f"),
				// session level: survives COMMIT and ROLLBACK
				on(1, `BEGIN`, ""),
				on(1, `SELECT pg_advisory_lock(2)`, ""),
				on(1, `COMMIT`, ""),
				on(2, `SELECT pg_try_advisory_lock(2)`, "f"),
				on(1, `BEGIN`, ""),
				on(1, `SELECT pg_advisory_lock(3)`, ""),
				on(1, `ROLLBACK`, ""),
				on(2, `SELECT pg_try_advisory_lock(3)`, "f"),
				// stacking
				on(1, `SELECT pg_advisory_lock(2)`, ""),
				on(1, `SELECT pg_advisory_unlock(2)`, "t"),
				on(2, `SELECT pg_try_advisory_lock(2)`, "f"),
				on(1, `SELECT pg_advisory_unlock(2)`, "t"),
				on(2, `SELECT pg_try_advisory_lock(2)`, "t"),
				// rollback releases transaction-level locks too
				on(1, `BEGIN`, ""),
				on(1, `SELECT pg_advisory_xact_lock(4)`, ""),
				on(1, `ROLLBACK`, ""),
				on(2, `SELECT pg_try_advisory_xact_lock(4)`, "t"),
			},
		},
	}
}

func stCasesTriggers() []stCase {
	trgSetup := []stStep{
		q(`CREATE TABLE tt (id int, v int)`, ""),
		q(`CREATE TABLE tlog (seq bigserial, tag text, n int)`, ""),
	}
	return []stCase{
		{
			Name: "trigger-before-after-row-visibility-after-fires-at-end",
			Rule: "39.2 Visibility of Data Changes: the change causing the trigger is not visible to SQL in a row-level BEFORE trigger, but those commands see the effects of rows previously processed in the same outer command; when a row-level AFTER trigger is fired, all data changes made by the outer command are already complete and visible (39.1: AFTER row triggers fire at the end of the statement)",
			Steps: append(append([]stStep{}, trgSetup...),
				q(`CREATE FUNCTION fb() RETURNS trigger LANGUAGE plpgsql AS $$ BEGIN INSERT INTO tlog (tag, n) VALUES ('before ' || NEW.id, (SELECT count(*) FROM tt)); RETURN NEW; END $$`, ""),
				q(`CREATE FUNCTION fa() RETURNS trigger LANGUAGE plpgsql AS $$ BEGIN INSERT INTO tlog (tag, n) VALUES ('after ' || NEW.id, (SELECT count(*) FROM tt)); RETURN NEW; END $$`, ""),
				q(`CREATE TRIGGER tb BEFORE INSERT ON tt FOR EACH ROW EXECUTE FUNCTION fb()`, ""),
				q(`CREATE TRIGGER ta AFTER INSERT ON tt FOR EACH ROW EXECUTE FUNCTION fa()`, ""),
				q(`INSERT INTO tt VALUES (1, 1), (2, 2), (3, 3)`, "N=3"),
				q(`SELECT tag, n FROM tlog ORDER BY seq`, "before 1|0;before 2|1;before 3|2;after 1|3;after 2|3;after 3|3"),
			),
		},
		{
			Name: "trigger-name-order-and-before-modifies-or-skips-row",
			Rule: "39.1 Overview of Trigger Behavior: triggers for the same event fire in alphabetical order by trigger name; a row-level BEFORE trigger can return NULL to skip the operation for the current row, or a modified NEW which becomes the row inserted (and the input of the next trigger)",
			Steps: append(append([]stStep{}, trgSetup...),
				q(`CREATE FUNCTION f_add10() RETURNS trigger LANGUAGE plpgsql AS $$ BEGIN NEW.v := NEW.v + 10; RETURN NEW; END $$`, ""),
				q(`CREATE FUNCTION f_double_skipneg() RETURNS trigger LANGUAGE plpgsql AS $$ BEGIN IF NEW.v < 0 THEN RETURN NULL; END IF; NEW.v := NEW.v * 2; RETURN NEW; END $$`, ""),
				// created in the "wrong" order on purpose: a_ must still fire before z_
				q(`CREATE TRIGGER z_add BEFORE INSERT ON tt FOR EACH ROW EXECUTE FUNCTION f_add10()`, ""),
				q(`CREATE TRIGGER a_double BEFORE INSERT ON tt FOR EACH ROW EXECUTE FUNCTION f_double_skipneg()`, ""),
				q(`INSERT INTO tt VALUES (1, 1), (2, -5), (3, 3)`, "N=2"),
				q(`SELECT id, v FROM tt ORDER BY id`, "1|12;3|16"),
			),
		},
		{
			Name: "trigger-when-condition-and-update-of",
			Rule: "CREATE TRIGGER reference: WHEN (condition) — the function is only executed if the condition is true (example: WHEN (OLD.balance IS DISTINCT FROM NEW.balance)); UPDATE OF col fires only if a listed column is mentioned as a target of the UPDATE command",
			Steps: append(append([]stStep{}, trgSetup...),
				q(`CREATE FUNCTION fl() RETURNS trigger LANGUAGE plpgsql AS $$ BEGIN INSERT INTO tlog (tag, n) VALUES (TG_NAME, NEW.id); RETURN NEW; END $$`, ""),
				q(`CREATE TRIGGER w AFTER UPDATE ON tt FOR EACH ROW WHEN (OLD.v IS DISTINCT FROM NEW.v) EXECUTE FUNCTION fl()`, ""),
				q(`CREATE TRIGGER o AFTER UPDATE OF id ON tt FOR EACH ROW EXECUTE FUNCTION fl()`, ""),
				q(`INSERT INTO tt VALUES (1, 1), (2, 2)`, ""),
				q(`UPDATE tt SET v = v WHERE id = 1`, "N=1"),
				q(`SELECT count(*) FROM tlog`, "0"),
				q(`UPDATE tt SET v = v + 1 WHERE id = 2`, "N=1"),
				q(`SELECT tag, n FROM tlog ORDER BY seq`, "w|2"),
				q(`UPDATE tt SET id = id WHERE id = 1`, "N=1"),
				q(`SELECT tag, n FROM tlog ORDER BY seq`, "w|2;o|1"),
			),
		},
		{
			Name: "trigger-raise-exception-aborts-statement",
			Rule: "43.9 Errors and Messages: RAISE EXCEPTION aborts the current transaction (default SQLSTATE P0001); USING ERRCODE sets the SQLSTATE; nothing of the statement persists",
			Steps: append(append([]stStep{}, trgSetup...),
				q(`CREATE FUNCTION fr() RETURNS trigger LANGUAGE plpgsql AS $$ BEGIN IF NEW.v > 100 THEN RAISE EXCEPTION 'too big: %', NEW.v; END IF; RETURN NEW; END $$`, ""),
				q(`CREATE TRIGGER r BEFORE INSERT ON tt FOR EACH ROW EXECUTE FUNCTION fr()`, ""),
				q(`INSERT INTO tt VALUES (1, 1), (2, 200)`, "ERR P0001"),
				q(`SELECT count(*) FROM tt`, "0"),
			),
		},
		{
			Name: "column-default-vs-explicit-default-vs-null",
			Rule: "5.2 Default Values / INSERT reference: a column not given a value (or given the keyword DEFAULT) is filled with its default, or NULL if it has none; an explicit NULL is stored as NULL, the default is NOT applied (and violates NOT NULL: 23502); UPDATE … SET col = DEFAULT resets it",
			Steps: []stStep{
				q(`CREATE TABLE d (id int, a int DEFAULT 7, b text, c int NOT NULL DEFAULT 5)`, ""),
				q(`INSERT INTO d (id) VALUES (1)`, ""),
				q(`INSERT INTO d (id, a, c) VALUES (2, DEFAULT, DEFAULT)`, ""),
				q(`INSERT INTO d (id, a) VALUES (3, NULL)`, ""),
				q(`INSERT INTO d (id, c) VALUES (4, NULL)`, "ERR 23502"),
				q(`INSERT INTO d DEFAULT VALUES`, ""),
				q(`SELECT id, a, b, c FROM d ORDER BY id NULLS LAST`, "1|7|NULL|5;2|7|NULL|5;3|NULL|NULL|5;NULL|7|NULL|5"),
				q(`UPDATE d SET a = 1, c = 1 WHERE id = 1`, ""),
				q(`UPDATE d SET a = DEFAULT, c = DEFAULT WHERE id = 1`, ""),
				q(`SELECT a, c FROM d WHERE id = 1`, "7|5"),
			},
		},
	}
}
