package pgsim

import (
	"math/big"
	"regexp"
	"strings"
)

// walkExpr visits e and its children (not descending into subqueries' bodies) until fn returns false.
func walkExpr(e Expr, fn func(Expr) bool) {
	if e == nil {
		return
	}
	if !fn(e) {
		return
	}
	switch v := e.(type) {
	case *BinOp:
		walkExpr(v.L, fn)
		walkExpr(v.R, fn)
	case *UnOp:
		walkExpr(v.X, fn)
	case *IsX:
		walkExpr(v.X, fn)
		walkExpr(v.Y, fn)
	case *BetweenX:
		walkExpr(v.X, fn)
		walkExpr(v.Lo, fn)
		walkExpr(v.Hi, fn)
	case *InX:
		walkExpr(v.X, fn)
		for _, i := range v.List {
			walkExpr(i, fn)
		}
	case *AnyX:
		walkExpr(v.X, fn)
		walkExpr(v.Arr, fn)
	case *CaseX:
		walkExpr(v.Arg, fn)
		for _, w := range v.Whens {
			walkExpr(w.Cond, fn)
			walkExpr(w.Then, fn)
		}
		walkExpr(v.Else, fn)
	case *CastX:
		walkExpr(v.X, fn)
	case *FuncX:
		for _, a := range v.Args {
			walkExpr(a, fn)
		}
	case *RowX:
		for _, a := range v.Items {
			walkExpr(a, fn)
		}
	case *ArrayX:
		for _, a := range v.Items {
			walkExpr(a, fn)
		}
	case *SubscriptX:
		walkExpr(v.X, fn)
		walkExpr(v.Idx, fn)
		walkExpr(v.Lo, fn)
		walkExpr(v.Hi, fn)
	case *FieldX:
		walkExpr(v.X, fn)
	case *AtTZX:
		walkExpr(v.X, fn)
	case *parenX:
		walkExpr(v.X, fn)
	}
}

var builtinAggs = map[string]bool{
	"count": true, "sum": true, "max": true, "min": true, "avg": true, "array_agg": true, "string_agg": true,
	"jsonb_agg": true, "json_agg": true, "json_object_agg": true, "jsonb_object_agg": true, "bool_and": true,
	"bool_or": true, "every": true,
}

func (x *execCtx) isAgg(f *FuncX) bool {
	if f.Over != nil {
		return false
	}
	if f.Schema == "" || f.Schema == "pg_catalog" {
		if builtinAggs[f.Name] {
			return true
		}
	}
	return x.s.findAgg(f.Schema, f.Name) != nil
}

func (x *execCtx) containsAgg(e Expr) bool {
	found := false
	walkExpr(e, func(n Expr) bool {
		if found {
			return false
		}
		switch v := n.(type) {
		case *FuncX:
			if v.Over != nil {
				return true // args may contain aggregates, but not for our queries
			}
			if x.isAgg(v) {
				found = true
				return false
			}
		case *SubQ, *ExistsX:
			return false
		}
		return true
	})
	return found
}

// ---------- column lookup ----------

func (x *execCtx) lookup(parts []string, sc *scope) (Value, error) {
	switch len(parts) {
	case 1:
		name := parts[0]
		for s := sc; s != nil; s = s.parent {
			var found *relBinding
			fi := -1
			for _, b := range s.rels {
				for i, c := range b.cols {
					if c == name {
						if found != nil && found != b {
							return nil, pgErr("42702", "column reference %q is ambiguous", name)
						}
						if found == b {
							continue
						}
						found, fi = b, i
					}
				}
			}
			if found != nil {
				return found.vals[fi], nil
			}
		}
		// PL/pgSQL variables and function parameters
		if v, ok := x.pl.lookup(name); ok {
			return v, nil
		}
		// whole-row reference by relation alias
		for s := sc; s != nil; s = s.parent {
			for _, b := range s.rels {
				if b.name == name {
					return &Record{Type: b.rowType, Names: b.cols, Vals: b.vals}, nil
				}
			}
		}
		return nil, pgErr("42703", "column %q does not exist", name)
	case 2:
		rel, col := parts[0], parts[1]
		for s := sc; s != nil; s = s.parent {
			for _, b := range s.rels {
				if b.name == rel {
					for i, c := range b.cols {
						if c == col {
							return b.vals[i], nil
						}
					}
					return nil, pgErr("42703", "column %s.%s does not exist", rel, col)
				}
			}
		}
		// variable.field
		if v, ok := x.pl.lookup(rel); ok {
			return fieldOf(v, col)
		}
		// column.field (composite column)
		if v, err := x.lookup([]string{rel}, sc); err == nil {
			if _, ok := v.(*Record); ok {
				return fieldOf(v, col)
			}
		}
		return nil, pgErr("42P01", "missing FROM-clause entry for table %q", rel)
	case 3:
		// schema.table.column or rel.column.field
		if v, err := x.lookup(parts[1:], sc); err == nil {
			return v, nil
		}
		v, err := x.lookup(parts[:2], sc)
		if err != nil {
			return nil, err
		}
		return fieldOf(v, parts[2])
	}
	return nil, engineErr("unsupported column reference %v", parts)
}

func fieldOf(v Value, f string) (Value, error) {
	if v == nil {
		return nil, nil
	}
	r, ok := v.(*Record)
	if !ok {
		return nil, pgErr("42809", "column notation .%s applied to type %s, which is not a composite type", f, typeNameOf(v))
	}
	for i, n := range r.Names {
		if n == f {
			return r.Vals[i], nil
		}
	}
	return nil, pgErr("42703", "record has no field %q", f)
}

// ---------- eval ----------

func (x *execCtx) eval(e Expr, sc *scope) (Value, error) {
	switch v := e.(type) {
	case nil:
		return nil, nil
	case *Lit:
		return v.V, nil
	case *parenX:
		return x.eval(v.X, sc)
	case *ColRef:
		return x.lookup(v.Parts, sc)
	case *ParamX:
		if v.N >= 1 && v.N <= len(x.params) {
			return x.params[v.N-1], nil
		}
		return nil, pgErr("42P02", "there is no parameter $%d", v.N)
	case *BinOp:
		return x.evalBin(v, sc)
	case *UnOp:
		a, err := x.eval(v.X, sc)
		if err != nil {
			return nil, err
		}
		switch v.Op {
		case "not":
			if a == nil {
				return nil, nil
			}
			b, err := toBool(a)
			if err != nil {
				return nil, err
			}
			return !b, nil
		case "-":
			if a == nil {
				return nil, nil
			}
			switch n := a.(type) {
			case int64:
				return -n, nil
			case Numeric:
				return Numeric{new(big.Int).Neg(n.I)}, nil
			}
			return nil, pgErr("42883", "operator does not exist: - %s", typeNameOf(a))
		case "+":
			return a, nil
		}
	case *IsX:
		a, err := x.eval(v.X, sc)
		if err != nil {
			return nil, err
		}
		var r bool
		switch v.What {
		case "null":
			r = a == nil
			if rec, ok := a.(*Record); ok && rec != nil {
				// row IS NULL: all fields null
				all := true
				for _, f := range rec.Vals {
					if f != nil {
						all = false
					}
				}
				r = all
				if v.Not {
					// row IS NOT NULL: all fields non-null
					allNN := true
					for _, f := range rec.Vals {
						if f == nil {
							allNN = false
						}
					}
					return allNN, nil
				}
			}
		case "true":
			b, ok := a.(bool)
			r = ok && b
		case "false":
			b, ok := a.(bool)
			r = ok && !b
		case "unknown":
			r = a == nil
		case "distinct":
			b, err := x.eval(v.Y, sc)
			if err != nil {
				return nil, err
			}
			if a == nil || b == nil {
				r = !(a == nil && b == nil)
			} else {
				c, err := compareValues(a, b)
				if err != nil {
					return nil, err
				}
				r = c != 0
			}
		}
		if v.Not {
			r = !r
		}
		return r, nil
	case *BetweenX:
		a, err := x.eval(v.X, sc)
		if err != nil {
			return nil, err
		}
		lo, err := x.eval(v.Lo, sc)
		if err != nil {
			return nil, err
		}
		hi, err := x.eval(v.Hi, sc)
		if err != nil {
			return nil, err
		}
		if a == nil || lo == nil || hi == nil {
			return nil, nil
		}
		c1, err := compareValues(a, lo)
		if err != nil {
			return nil, err
		}
		c2, err := compareValues(a, hi)
		if err != nil {
			return nil, err
		}
		r := c1 >= 0 && c2 <= 0
		if v.Not {
			r = !r
		}
		return r, nil
	case *InX:
		return x.evalIn(v, sc)
	case *ExistsX:
		rs, err := x.child().runSelect(v.Q, sc)
		if err != nil {
			return nil, err
		}
		return len(rs.Rows) > 0, nil
	case *SubQ:
		rs, err := x.child().runSelect(v.Q, sc)
		if err != nil {
			return nil, err
		}
		if len(rs.Rows) == 0 {
			return nil, nil
		}
		if len(rs.Rows) > 1 {
			return nil, pgErr("21000", "more than one row returned by a subquery used as an expression")
		}
		if len(rs.Rows[0]) != 1 {
			return &Record{Names: rs.Cols, Vals: rs.Rows[0]}, nil
		}
		return rs.Rows[0][0], nil
	case *AnyX:
		return x.evalAny(v, sc)
	case *CaseX:
		if v.Arg != nil {
			a, err := x.eval(v.Arg, sc)
			if err != nil {
				return nil, err
			}
			for _, w := range v.Whens {
				c, err := x.eval(w.Cond, sc)
				if err != nil {
					return nil, err
				}
				if a != nil && c != nil {
					cmp, err := compareValues(a, c)
					if err != nil {
						return nil, err
					}
					if cmp == 0 {
						return x.eval(w.Then, sc)
					}
				}
			}
		} else {
			for _, w := range v.Whens {
				c, err := x.eval(w.Cond, sc)
				if err != nil {
					return nil, err
				}
				if b, ok := c.(bool); ok && b {
					return x.eval(w.Then, sc)
				}
			}
		}
		if v.Else != nil {
			return x.eval(v.Else, sc)
		}
		return nil, nil
	case *CastX:
		a, err := x.eval(v.X, sc)
		if err != nil {
			return nil, err
		}
		return x.cast(a, v.Type)
	case *FuncX:
		return x.evalFunc(v, sc)
	case *RowX:
		r := &Record{}
		for _, it := range v.Items {
			a, err := x.eval(it, sc)
			if err != nil {
				return nil, err
			}
			r.Names = append(r.Names, "")
			r.Vals = append(r.Vals, a)
		}
		return r, nil
	case *ArrayX:
		arr := &Array{}
		for _, it := range v.Items {
			a, err := x.eval(it, sc)
			if err != nil {
				return nil, err
			}
			if u, ok := a.(Unk); ok {
				a = Text(u)
			}
			arr.Items = append(arr.Items, a)
		}
		if len(arr.Items) > 0 && arr.Items[0] != nil {
			arr.Elem = baseType(typeNameOf(arr.Items[0]))
		}
		return arr, nil
	case *SubscriptX:
		return x.evalSubscript(v, sc)
	case *FieldX:
		a, err := x.eval(v.X, sc)
		if err != nil {
			return nil, err
		}
		if v.Field == "*" {
			return a, nil
		}
		return fieldOf(a, v.Field)
	case *AtTZX:
		a, err := x.eval(v.X, sc)
		if err != nil {
			return nil, err
		}
		z, err := x.eval(v.Zone, sc)
		if err != nil {
			return nil, err
		}
		zs, _ := textOf(z)
		if !strings.EqualFold(zs, "utc") {
			return nil, engineErr("AT TIME ZONE %q not supported (only utc)", zs)
		}
		if a == nil {
			return nil, nil
		}
		if u, ok := a.(Unk); ok {
			return parseTimestamp(string(u), true)
		}
		return a, nil
	case *StarX:
		return nil, engineErr("* not allowed here")
	}
	return nil, engineErr("eval: unsupported expression %T", e)
}

func toBool(v Value) (bool, error) {
	switch b := v.(type) {
	case bool:
		return b, nil
	case Unk:
		return parseBool(string(b))
	}
	return false, pgErr("42804", "argument must be type boolean, not type %s", typeNameOf(v))
}

func (x *execCtx) evalIn(v *InX, sc *scope) (Value, error) {
	a, err := x.eval(v.X, sc)
	if err != nil {
		return nil, err
	}
	var cands []Value
	if v.Q != nil {
		rs, err := x.child().runSelect(v.Q, sc)
		if err != nil {
			return nil, err
		}
		for _, r := range rs.Rows {
			if len(r) != 1 {
				return nil, pgErr("42601", "subquery has too many columns")
			}
			cands = append(cands, r[0])
		}
	} else {
		for _, it := range v.List {
			c, err := x.eval(it, sc)
			if err != nil {
				return nil, err
			}
			cands = append(cands, c)
		}
	}
	if a == nil {
		if len(cands) == 0 {
			return v.Not, nil
		}
		return nil, nil
	}
	sawNull := false
	for _, c := range cands {
		if c == nil {
			sawNull = true
			continue
		}
		cmp, err := compareValues(a, c)
		if err != nil {
			return nil, err
		}
		if cmp == 0 {
			return !v.Not, nil
		}
	}
	if sawNull {
		return nil, nil
	}
	return v.Not, nil
}

func (x *execCtx) evalAny(v *AnyX, sc *scope) (Value, error) {
	a, err := x.eval(v.X, sc)
	if err != nil {
		return nil, err
	}
	var cands []Value
	if v.Q != nil {
		rs, err := x.child().runSelect(v.Q, sc)
		if err != nil {
			return nil, err
		}
		for _, r := range rs.Rows {
			cands = append(cands, r[0])
		}
	} else {
		arr, err := x.eval(v.Arr, sc)
		if err != nil {
			return nil, err
		}
		if arr == nil {
			return nil, nil
		}
		if u, ok := arr.(Unk); ok {
			arr, err = parseArrayLiteral(string(u), "")
			if err != nil {
				return nil, err
			}
		}
		ar, ok := arr.(*Array)
		if !ok {
			return nil, pgErr("42809", "op ANY/ALL (array) requires array on right side")
		}
		cands = ar.Items
	}
	if a == nil {
		return nil, nil
	}
	sawNull := false
	for _, c := range cands {
		if c == nil {
			sawNull = true
			continue
		}
		r, err := cmpOp(v.Op, a, c)
		if err != nil {
			return nil, err
		}
		if r && !v.All {
			return true, nil
		}
		if !r && v.All {
			return false, nil
		}
	}
	if sawNull {
		return nil, nil
	}
	return v.All, nil
}

func cmpOp(op string, a, b Value) (bool, error) {
	c, err := compareValues(a, b)
	if err != nil {
		return false, err
	}
	switch op {
	case "=":
		return c == 0, nil
	case "<>":
		return c != 0, nil
	case "<":
		return c < 0, nil
	case "<=":
		return c <= 0, nil
	case ">":
		return c > 0, nil
	case ">=":
		return c >= 0, nil
	}
	return false, engineErr("comparison operator %q", op)
}

func (x *execCtx) evalSubscript(v *SubscriptX, sc *scope) (Value, error) {
	a, err := x.eval(v.X, sc)
	if err != nil {
		return nil, err
	}
	if a == nil {
		return nil, nil
	}
	arr, ok := a.(*Array)
	if !ok {
		if j, isJ := a.(*JSON); isJ && !v.IsSlice {
			// jsonb subscripting
			i, err := x.eval(v.Idx, sc)
			if err != nil {
				return nil, err
			}
			switch k := i.(type) {
			case int64:
				if r := j.idx(int(k)); r != nil {
					return r.Clone().asB(), nil
				}
				return nil, nil
			case Text, Unk:
				s, _ := textOf(k)
				if r := j.get(s); r != nil {
					return r.Clone().asB(), nil
				}
				return nil, nil
			}
		}
		return nil, pgErr("42804", "cannot subscript type %s because it does not support subscripting", typeNameOf(a))
	}
	toInt := func(e Expr, def int) (int, bool, error) {
		if e == nil {
			return def, true, nil
		}
		i, err := x.eval(e, sc)
		if err != nil {
			return 0, false, err
		}
		if i == nil {
			return 0, false, nil
		}
		b, _, ok := asBig(coerceUnkInt(i))
		if !ok {
			return 0, false, pgErr("42804", "array subscript must have type integer")
		}
		return int(b.Int64()), true, nil
	}
	if v.IsSlice {
		lo, ok1, err := toInt(v.Lo, 1)
		if err != nil {
			return nil, err
		}
		hi, ok2, err := toInt(v.Hi, len(arr.Items))
		if err != nil {
			return nil, err
		}
		if !ok1 || !ok2 {
			return nil, nil
		}
		if lo < 1 {
			lo = 1
		}
		if hi > len(arr.Items) {
			hi = len(arr.Items)
		}
		out := &Array{Elem: arr.Elem}
		if lo <= hi {
			out.Items = append(out.Items, arr.Items[lo-1:hi]...)
		}
		return out, nil
	}
	i, ok1, err := toInt(v.Idx, 0)
	if err != nil || !ok1 {
		return nil, err
	}
	if i < 1 || i > len(arr.Items) {
		return nil, nil
	}
	return arr.Items[i-1], nil
}

// cast wraps castValue with catalog-aware fallbacks (composite and enum types).
func (x *execCtx) cast(v Value, typ string) (Value, error) {
	r, err := castValue(v, typ)
	if err == nil {
		return r, nil
	}
	fb, ok := err.(errCastFallback)
	if !ok {
		return nil, err
	}
	tn := strings.TrimSpace(typ)
	if td := x.s.findType(tn); td != nil {
		if td.Enum != nil {
			s, terr := textOf(v)
			if terr != nil {
				return nil, terr
			}
			for _, l := range td.Enum {
				if l == s {
					return Text(s), nil
				}
			}
			return nil, pgErr("22P02", "invalid input value for enum %s: %q", td.Name, s)
		}
		return x.castComposite(v, td.Schema+"."+td.Name, td.Fields)
	}
	if t := x.s.findRowType(tn); t != nil {
		var fields []ColDef
		for _, c := range t.Cols {
			fields = append(fields, ColDef{Name: c.Name, Type: c.Type})
		}
		return x.castComposite(v, t.Schema+"."+t.Name, fields)
	}
	_ = fb
	return nil, pgErr("42704", "type %q does not exist (casting %s)", typ, typeNameOf(v))
}

func (x *execCtx) castComposite(v Value, name string, fields []ColDef) (Value, error) {
	var vals []Value
	switch r := v.(type) {
	case *Record:
		vals = r.Vals
	case Unk, Text:
		s, _ := textOf(r)
		parts, err := parseCompositeLiteral(s)
		if err != nil {
			return nil, err
		}
		vals = parts
	default:
		return nil, pgErr("42846", "cannot cast type %s to %s", typeNameOf(v), name)
	}
	if len(vals) != len(fields) {
		return nil, pgErr("42846", "cannot cast to %s: input has %d columns, type has %d", name, len(vals), len(fields))
	}
	out := &Record{Type: name}
	for i, f := range fields {
		c, err := x.cast(vals[i], f.Type)
		if err != nil {
			return nil, err
		}
		out.Names = append(out.Names, f.Name)
		out.Vals = append(out.Vals, c)
	}
	return out, nil
}

// parseCompositeLiteral parses '(a,"b c",)' into field values (Unk or nil).
func parseCompositeLiteral(s string) ([]Value, error) {
	t := strings.TrimSpace(s)
	if len(t) < 2 || t[0] != '(' || t[len(t)-1] != ')' {
		return nil, pgErr("22P02", "malformed record literal: %q", s)
	}
	in := t[1 : len(t)-1]
	var out []Value
	var cur strings.Builder
	quoted, inQ, any := false, false, false
	flush := func() {
		if !quoted && cur.Len() == 0 {
			out = append(out, nil)
		} else {
			out = append(out, Unk(cur.String()))
		}
		cur.Reset()
		quoted = false
	}
	for i := 0; i < len(in); i++ {
		c := in[i]
		any = true
		switch {
		case inQ && c == '\\' && i+1 < len(in):
			i++
			cur.WriteByte(in[i])
		case inQ && c == '"' && i+1 < len(in) && in[i+1] == '"':
			cur.WriteByte('"')
			i++
		case c == '"':
			inQ = !inQ
			quoted = true
		case !inQ && c == ',':
			flush()
		default:
			cur.WriteByte(c)
		}
	}
	_ = any
	flush()
	return out, nil
}

// ---------- binary operators ----------

func (x *execCtx) evalBin(v *BinOp, sc *scope) (Value, error) {
	switch v.Op {
	case "and":
		a, err := x.eval(v.L, sc)
		if err != nil {
			return nil, err
		}
		if a != nil {
			ab, err := toBool(a)
			if err != nil {
				return nil, err
			}
			if !ab {
				return false, nil
			}
		}
		b, err := x.eval(v.R, sc)
		if err != nil {
			return nil, err
		}
		if b != nil {
			bb, err := toBool(b)
			if err != nil {
				return nil, err
			}
			if !bb {
				return false, nil
			}
		}
		if a == nil || b == nil {
			return nil, nil
		}
		return true, nil
	case "or":
		a, err := x.eval(v.L, sc)
		if err != nil {
			return nil, err
		}
		if a != nil {
			ab, err := toBool(a)
			if err != nil {
				return nil, err
			}
			if ab {
				return true, nil
			}
		}
		b, err := x.eval(v.R, sc)
		if err != nil {
			return nil, err
		}
		if b != nil {
			bb, err := toBool(b)
			if err != nil {
				return nil, err
			}
			if bb {
				return true, nil
			}
		}
		if a == nil || b == nil {
			return nil, nil
		}
		return false, nil
	}
	a, err := x.eval(v.L, sc)
	if err != nil {
		return nil, err
	}
	b, err := x.eval(v.R, sc)
	if err != nil {
		return nil, err
	}
	return binaryOp(v.Op, a, b)
}

func binaryOp(op string, a, b Value) (Value, error) {
	switch op {
	case "=", "<>", "<", "<=", ">", ">=":
		if a == nil || b == nil {
			return nil, nil
		}
		return cmpOp(op, a, b)
	}
	if a == nil || b == nil {
		return nil, nil
	}
	switch op {
	case "+", "-", "*", "/", "%":
		// jsonb - text / jsonb - int
		if j, ok := a.(*JSON); ok && op == "-" {
			switch k := b.(type) {
			case Text, Unk:
				s, _ := textOf(k)
				return jsonDeleteKey(j, s)
			case *Array:
				// doc 9.16 Table 9.46: jsonb - text[] deletes all matching keys or array elements
				out := j
				for _, it := range k.Items {
					if it == nil {
						continue
					}
					s, _ := textOf(it)
					var err error
					if out, err = jsonDeleteKey(out, s); err != nil {
						return nil, err
					}
				}
				return out, nil
			case int64:
				if j.Kind != JArray {
					return nil, pgErr("22023", "cannot delete from object using integer index")
				}
				out := &JSON{Kind: JArray, B: true}
				i := int(k)
				if i < 0 {
					i += len(j.Arr)
				}
				for n, e := range j.Arr {
					if n != i {
						out.Arr = append(out.Arr, e)
					}
				}
				return out, nil
			}
		}
		a2, b2, err := coercePair(a, b)
		if err != nil {
			return nil, err
		}
		if _, ok := a2.(Text); ok {
			// unknown op unknown with arithmetic: try numbers
			a2 = coerceUnkInt(a2)
			b2 = coerceUnkInt(b2)
		}
		if ta, ok := a2.(Timestamp); ok {
			if tb, ok := b2.(Timestamp); ok && op == "-" {
				return nil, engineErr("interval arithmetic (%v - %v) not supported", ta, tb)
			}
		}
		x1, n1, ok1 := asBig(a2)
		x2, n2, ok2 := asBig(b2)
		if !ok1 || !ok2 {
			return nil, pgErr("42883", "operator does not exist: %s %s %s", typeNameOf(a), op, typeNameOf(b))
		}
		r := new(big.Int)
		switch op {
		case "+":
			r.Add(x1, x2)
		case "-":
			r.Sub(x1, x2)
		case "*":
			r.Mul(x1, x2)
		case "/":
			if x2.Sign() == 0 {
				return nil, pgErr("22012", "division by zero")
			}
			if n1 || n2 {
				q, m := new(big.Int).QuoRem(x1, x2, new(big.Int))
				if m.Sign() != 0 {
					return nil, engineErr("fractional numeric division %s / %s not supported", x1, x2)
				}
				r = q
			} else {
				r.Quo(x1, x2)
			}
		case "%":
			if x2.Sign() == 0 {
				return nil, pgErr("22012", "division by zero")
			}
			r.Rem(x1, x2)
		}
		if n1 || n2 {
			return Numeric{r}, nil
		}
		if !r.IsInt64() {
			return nil, pgErr("22003", "bigint out of range")
		}
		return r.Int64(), nil
	case "||":
		return concatOp(a, b)
	case "->", "->>":
		j, err := asJSON(a)
		if err != nil {
			return nil, err
		}
		var r *JSON
		switch k := b.(type) {
		case int64:
			r = j.idx(int(k))
		case Numeric:
			r = j.idx(int(k.I.Int64()))
		default:
			s, err := textOf(k)
			if err != nil {
				return nil, err
			}
			r = j.get(s)
		}
		if r == nil {
			return nil, nil
		}
		if op == "->>" {
			return jsonChildOf(j, r).textValue(), nil
		}
		c := r.Clone()
		c.B = j.B
		return c, nil
	case "#>", "#>>":
		j, err := asJSON(a)
		if err != nil {
			return nil, err
		}
		var path []string
		switch p := b.(type) {
		case *Array:
			for _, it := range p.Items {
				s, _ := textOf(it)
				path = append(path, s)
			}
		default:
			s, _ := textOf(p)
			arr, err := parseArrayLiteral(s, "text")
			if err != nil {
				return nil, err
			}
			for _, it := range arr.(*Array).Items {
				s, _ := textOf(it)
				path = append(path, s)
			}
		}
		r := jsonPath(j, path)
		if r == nil {
			return nil, nil
		}
		if op == "#>>" {
			return jsonChildOf(j, r).textValue(), nil
		}
		c := r.Clone()
		c.B = j.B
		return c, nil
	case "@>", "<@":
		if op == "<@" {
			a, b = b, a
		}
		if _, isArr := a.(*Array); isArr {
			aa := a.(*Array)
			bv := b
			if u, ok := bv.(Unk); ok {
				var err error
				bv, err = parseArrayLiteral(string(u), aa.Elem)
				if err != nil {
					return nil, err
				}
			}
			ba, ok := bv.(*Array)
			if !ok {
				return nil, pgErr("42883", "operator does not exist: %s @> %s", typeNameOf(a), typeNameOf(b))
			}
			for _, be := range ba.Items {
				found := false
				for _, ae := range aa.Items {
					if ae != nil && be != nil {
						if c, err := compareValues(ae, be); err == nil && c == 0 {
							found = true
							break
						}
					}
				}
				if !found {
					return false, nil
				}
			}
			return true, nil
		}
		ja, err := asJSONB(a)
		if err != nil {
			return nil, err
		}
		jb, err := asJSONB(b)
		if err != nil {
			return nil, err
		}
		return jsonContains(ja, jb, true), nil
	case "@@":
		j, err := asJSONB(a)
		if err != nil {
			return nil, err
		}
		p, err := textOf(b)
		if err != nil {
			return nil, err
		}
		return evalJSONPathPredicate(j, p)
	case "?":
		j, err := asJSONB(a)
		if err != nil {
			return nil, err
		}
		s, _ := textOf(b)
		return jsonHasKey(j, s), nil
	case "?|", "?&":
		j, err := asJSONB(a)
		if err != nil {
			return nil, err
		}
		bv := b
		if u, ok := bv.(Unk); ok {
			bv, err = parseArrayLiteral(string(u), "text")
			if err != nil {
				return nil, err
			}
		}
		arr, ok := bv.(*Array)
		if !ok {
			return nil, pgErr("42883", "operator does not exist: jsonb %s %s", op, typeNameOf(b))
		}
		all := true
		any := false
		for _, it := range arr.Items {
			s, _ := textOf(it)
			if jsonHasKey(j, s) {
				any = true
			} else {
				all = false
			}
		}
		if op == "?|" {
			return any, nil
		}
		return all, nil
	case "like", "ilike":
		s, err := textOf(a)
		if err != nil {
			return nil, err
		}
		p, err := textOf(b)
		if err != nil {
			return nil, err
		}
		return likeMatch(s, p, op == "ilike"), nil
	case "~", "~*", "!~":
		s, _ := textOf(a)
		p, _ := textOf(b)
		if op == "~*" {
			p = "(?i)" + p
		}
		re, err := regexp.Compile(p)
		if err != nil {
			return nil, pgErr("2201B", "invalid regular expression: %v", err)
		}
		m := re.MatchString(s)
		if op == "!~" {
			m = !m
		}
		return m, nil
	}
	return nil, engineErr("operator %q not supported", op)
}

func likeMatch(s, p string, fold bool) bool {
	if fold {
		s, p = strings.ToLower(s), strings.ToLower(p)
	}
	var sb strings.Builder
	sb.WriteString("(?s)^")
	for i := 0; i < len(p); i++ {
		switch c := p[i]; c {
		case '%':
			sb.WriteString(".*")
		case '_':
			sb.WriteString(".")
		case '\\':
			if i+1 < len(p) {
				i++
				sb.WriteString(regexp.QuoteMeta(string(p[i])))
			}
		default:
			sb.WriteString(regexp.QuoteMeta(string(c)))
		}
	}
	sb.WriteString("$")
	re, err := regexp.Compile(sb.String())
	if err != nil {
		return false
	}
	return re.MatchString(s)
}

func asJSON(v Value) (*JSON, error) {
	switch j := v.(type) {
	case *JSON:
		return j, nil
	case Unk:
		p, err := ParseJSON(string(j))
		if err != nil {
			return nil, err
		}
		return p.Normalize(), nil
	}
	return nil, pgErr("42883", "operator does not exist for type %s (json expected)", typeNameOf(v))
}

// asJSONArg is asJSON for the argument of a json_xxx / jsonb_xxx function: an untyped
// literal takes the parameter type of the function, so for a json_ function it is a json
// value (exact text kept), not a jsonb one.
func asJSONArg(fname string, v Value) (*JSON, error) {
	if u, ok := v.(Unk); ok && strings.HasPrefix(fname, "json_") {
		p, err := ParseJSON(string(u))
		if err != nil {
			return nil, err
		}
		p.Raw = string(u)
		return p, nil
	}
	return asJSON(v)
}

// jsonChildOf returns member r of j printed in j's format (jsonb members always print in
// the jsonb format, whatever flags the node carries).
func jsonChildOf(j, r *JSON) *JSON {
	if r == nil || r.B == j.B {
		return r
	}
	c := r.Clone()
	c.B = j.B
	return c
}

func asJSONB(v Value) (*JSON, error) {
	j, err := asJSON(v)
	if err != nil {
		return nil, err
	}
	if !j.B {
		return j.Normalize(), nil
	}
	return j, nil
}

func concatOp(a, b Value) (Value, error) {
	_, aj := a.(*JSON)
	_, bj := b.(*JSON)
	if aj || bj {
		ja, err := asJSONB(a)
		if err != nil {
			return nil, err
		}
		jb, err := asJSONB(b)
		if err != nil {
			return nil, err
		}
		return jsonConcat(ja, jb), nil
	}
	_, ab := a.(Bytes)
	_, bb := b.(Bytes)
	// bytea || bytea, and bytea || <untyped literal> (the literal resolves to bytea). With a
	// typed text operand Postgres picks text || anynonarray instead: the bytea is rendered
	// in its text form (\x…) and the result is text.
	_, aText := a.(Text)
	_, bText := b.(Text)
	if (ab || bb) && !aText && !bText {
		x1, err := castValue(a, "bytea")
		if err != nil {
			return nil, err
		}
		x2, err := castValue(b, "bytea")
		if err != nil {
			return nil, err
		}
		return Bytes(append(append([]byte{}, x1.(Bytes)...), x2.(Bytes)...)), nil
	}
	if aa, ok := a.(*Array); ok {
		out := &Array{Elem: aa.Elem, Items: append([]Value(nil), aa.Items...)}
		if ba, ok := b.(*Array); ok {
			out.Items = append(out.Items, ba.Items...)
		} else {
			out.Items = append(out.Items, b)
		}
		return out, nil
	}
	s1, err := textOf(a)
	if err != nil {
		return nil, err
	}
	s2, err := textOf(b)
	if err != nil {
		return nil, err
	}
	return Text(s1 + s2), nil
}
