package pgsim

import (
	"context"
	"testing"
	"time"
)

// A session blocked on a row version written (or a row lock taken) by a subtransaction
// goes on as soon as that subtransaction is rolled back with ROLLBACK TO SAVEPOINT, although
// the top-level transaction of the other session is still open (Postgres: XactLockTableWait
// waits on the subtransaction's xid; row locks are released during savepoint rollback).
func TestWaitEndsWhenSubtransactionRollsBack(t *testing.T) {
	ctx := context.Background()
	for _, tc := range []struct{ name, hold, blocked string }{
		{"updated-row", `update t set v = 1 where id = 1`, `update t set v = 2 where id = 1`},
		{"for-update-lock", `select * from t where id = 1 for update`, `update t set v = 2 where id = 1`},
		{"inserted-key", `insert into t (id, v) values (3, 0)`, `insert into t (id, v) values (3, 1)`},
	} {
		t.Run(tc.name, func(t *testing.T) {
			db := NewDB()
			db.Mode = ModeFree
			sq := Open(db, nil)
			defer sq.Close()
			if _, err := sq.ExecContext(ctx, `create table t (id bigint primary key, v bigint)`); err != nil {
				t.Fatal(err)
			}
			if _, err := sq.ExecContext(ctx, `insert into t (id, v) values (1, 0)`); err != nil {
				t.Fatal(err)
			}
			a, err := sq.BeginTx(ctx, nil)
			if err != nil {
				t.Fatal(err)
			}
			defer a.Rollback()
			for _, q := range []string{`savepoint s`, tc.hold} {
				if _, err := a.ExecContext(ctx, q); err != nil {
					t.Fatal(q, err)
				}
			}
			done := make(chan error, 1)
			go func() {
				_, err := sq.ExecContext(ctx, tc.blocked)
				done <- err
			}()
			select {
			case err := <-done:
				t.Fatalf("the second session did not wait: %v", err)
			case <-time.After(200 * time.Millisecond):
			}
			if _, err := a.ExecContext(ctx, `rollback to savepoint s`); err != nil {
				t.Fatal(err)
			}
			select {
			case err := <-done:
				if err != nil {
					t.Fatalf("second session: %v", err)
				}
			case <-time.After(10 * time.Second):
				t.Fatal("the second session is still waiting although the subtransaction it waited for was rolled back")
			}
		})
	}
}
