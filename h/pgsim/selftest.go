package pgsim

// Self-test of the model ("keeping the model honest", DESIGN section 2.6).
//
// pgsim is the trusted base of every SQL-anchored check and cannot be compared with a
// real server in the sandbox. SelfTest runs a table of small SQL scripts on fresh
// in-memory databases. Every case cites the rule of the PostgreSQL documentation it
// encodes, and its EXPECTED result is written from that documentation (section numbers
// are those of the PostgreSQL 16 manual), never from what pgsim returns. A failing case
// is a defect of pgsim (or an unsupported construct, reported as ENGINE), never a
// reason to edit the expectation.
//
// A few cases rest on the behaviour of the Postgres executor rather than on a sentence
// of the manual (the manual calls the order "unpredictable"); they carry
// Basis == "executor" and quote the source comment they rely on.
//
// Multi-session cases are driven step by step from one goroutine when nothing blocks
// (ModeSequential: an unexpected lock wait is reported as an error instead of hanging).
// Where a session has to block and be released, the blocking statement runs on its own
// goroutine with the engine in ModeFree; the driver goroutine proceeds only once the
// engine has REGISTERED the waiter (db.waiting, read under the engine lock) or the
// statement has returned. No sleep is ever used as an oracle: a statement that should
// block and returns instead fails the case, and so does a statement that should be
// released and is not (bounded by stTimeout, which only converts a hang into a failure).

import (
	"errors"
	"fmt"
	"runtime"
	"strings"
	"time"
)

// SelfTestResult is the outcome of one self-test case.
type SelfTestResult struct {
	Name    string
	Rule    string // documentation rule (section + paraphrase)
	Basis   string // "doc" or "executor"
	Passed  bool
	Skipped bool
	Detail  string // failure detail or skip reason
	Elapsed time.Duration
}

// stStep is one step of a script.
//
//	Want == ""            the statement must succeed, its result is not looked at
//	Want == "(0 rows)"    empty result set
//	Want == "a|b;c|d"     rows ';'-separated, columns '|'-separated, NULL as NULL,
//	                      booleans as t/f, everything else in Postgres text output format
//	Want == "N=2"         rows affected (INSERT/UPDATE/DELETE without RETURNING)
//	Want == "ERR 23505"   SQLSTATE; "ERR 23505 name" also checks the constraint name
type stStep struct {
	S      int    // session number (1-based; 0 means 1)
	SQL    string // statement(s) to run
	Want   string
	Blocks bool // run on a goroutine; the statement MUST block (result checked by a later Join)
	Join   bool // wait for the blocked statement of session S; compare its result with Want
}

type stCase struct {
	Name  string
	Rule  string
	Basis string // "" = "doc"
	Skip  string // non-empty: the case is reported as skipped with this reason
	Steps []stStep
	Fn    func(c *stCtx) error // custom case (instead of Steps)
}

const stTimeout = 20 * time.Second

type stRes struct {
	rs  *RowSet
	n   int64
	err error
}

type stCtx struct {
	db      *DB
	sess    map[int]*Session
	pending map[int]chan stRes
}

func (c *stCtx) session(i int) *Session {
	if i == 0 {
		i = 1
	}
	s := c.sess[i]
	if s == nil {
		s = c.db.NewSession()
		c.sess[i] = s
	}
	return s
}

// render gives the canonical text of a result.
func stRender(r stRes) string {
	if r.err != nil {
		var pe *PgError
		if errors.As(r.err, &pe) {
			if pe.Constraint != "" {
				return "ERR " + pe.Code + " " + pe.Constraint
			}
			return "ERR " + pe.Code
		}
		var ee *EngineError
		if errors.As(r.err, &ee) {
			return "ENGINE " + ee.Msg
		}
		return "ERROR " + r.err.Error()
	}
	if r.rs == nil || len(r.rs.Cols) == 0 && len(r.rs.Rows) == 0 {
		return fmt.Sprintf("N=%d", r.n)
	}
	if len(r.rs.Rows) == 0 {
		return "(0 rows)"
	}
	var rows []string
	for _, row := range r.rs.Rows {
		var cols []string
		for _, v := range row {
			cols = append(cols, stValue(v))
		}
		rows = append(rows, strings.Join(cols, "|"))
	}
	return strings.Join(rows, ";")
}

func stValue(v Value) string {
	switch x := v.(type) {
	case nil:
		return "NULL"
	case bool:
		if x {
			return "t"
		}
		return "f"
	}
	s, err := textOf(v)
	if err != nil {
		return "<" + err.Error() + ">"
	}
	return s
}

func stMatch(want string, r stRes) bool {
	got := stRender(r)
	if want == "" {
		return r.err == nil
	}
	if strings.HasPrefix(want, "ERR ") && len(strings.Fields(want)) == 2 {
		// code only
		f := strings.Fields(got)
		return len(f) >= 2 && f[0] == "ERR" && f[1] == strings.Fields(want)[1]
	}
	if strings.HasPrefix(want, "N=") {
		return r.err == nil && fmt.Sprintf("N=%d", r.n) == want
	}
	return got == want
}

// exec runs a statement that is expected NOT to block. In ModeSequential an unexpected
// lock wait comes back as an engine error; in ModeFree the statement runs on a goroutine
// and a registered wait is reported as an error instead of hanging the self-test.
func (c *stCtx) exec(sess int, sql string) stRes {
	if c.db.Mode != ModeFree {
		rs, n, err := c.session(sess).Exec(sql, nil)
		return stRes{rs, n, err}
	}
	if c.pending[sess] != nil {
		return stRes{err: fmt.Errorf("session %d already has a statement in flight", sess)}
	}
	blocked, r, err := c.startMaybe(sess, sql)
	if err != nil {
		return stRes{err: err}
	}
	if blocked {
		// a deadlock victim registers and is woken at once: give it the chance to return
		if r, ok := c.poll(sess); ok {
			return r
		}
		return stRes{err: errors.New("statement unexpectedly BLOCKED on a lock")}
	}
	return r
}

// start runs sql on its own goroutine and returns once the engine has registered the
// session as a lock waiter. It is an error if the statement returns instead.
func (c *stCtx) start(sess int, sql string) error {
	s := c.session(sess)
	if c.pending[sess] != nil {
		return fmt.Errorf("session %d already has a statement in flight", sess)
	}
	ch := make(chan stRes, 1)
	go func() {
		rs, n, err := s.Exec(sql, nil)
		ch <- stRes{rs, n, err}
	}()
	deadline := time.Now().Add(stTimeout)
	for {
		c.db.mu.Lock()
		_, waiting := c.db.waiting[s.ID]
		c.db.mu.Unlock()
		if waiting {
			c.pending[sess] = ch
			return nil
		}
		select {
		case r := <-ch:
			return fmt.Errorf("expected to block, returned %s", stRender(r))
		default:
		}
		if time.Now().After(deadline) {
			return fmt.Errorf("statement neither blocked nor returned within %s", stTimeout)
		}
		runtime.Gosched()
		time.Sleep(20 * time.Microsecond) // polling back-off only, never an oracle
	}
}

// startMaybe is start for a statement that may either block or return at once
// (deadlock victim selection is unspecified): returns (blocked, immediate result).
func (c *stCtx) startMaybe(sess int, sql string) (bool, stRes, error) {
	s := c.session(sess)
	ch := make(chan stRes, 1)
	go func() {
		rs, n, err := s.Exec(sql, nil)
		ch <- stRes{rs, n, err}
	}()
	deadline := time.Now().Add(stTimeout)
	for {
		select {
		case r := <-ch:
			return false, r, nil
		default:
		}
		c.db.mu.Lock()
		_, waiting := c.db.waiting[s.ID]
		c.db.mu.Unlock()
		if waiting {
			// it may still become a deadlock victim immediately after registering; the
			// caller resolves that by waiting on both sessions
			c.pending[sess] = ch
			return true, stRes{}, nil
		}
		if time.Now().After(deadline) {
			return false, stRes{}, fmt.Errorf("statement neither blocked nor returned within %s", stTimeout)
		}
		runtime.Gosched()
		time.Sleep(20 * time.Microsecond)
	}
}

func (c *stCtx) join(sess int) (stRes, error) {
	ch := c.pending[sess]
	if ch == nil {
		return stRes{}, fmt.Errorf("session %d has no statement in flight", sess)
	}
	delete(c.pending, sess)
	select {
	case r := <-ch:
		return r, nil
	case <-time.After(stTimeout):
		return stRes{}, fmt.Errorf("blocked statement of session %d was not released within %s", sess, stTimeout)
	}
}

// poll returns the result of a pending statement if it has finished.
func (c *stCtx) poll(sess int) (stRes, bool) {
	ch := c.pending[sess]
	if ch == nil {
		return stRes{}, false
	}
	select {
	case r := <-ch:
		delete(c.pending, sess)
		return r, true
	default:
		return stRes{}, false
	}
}

// expect runs sql on sess and compares.
func (c *stCtx) expect(sess int, sql, want string) error {
	r := c.exec(sess, sql)
	if !stMatch(want, r) {
		return fmt.Errorf("s%d %q: want %s, got %s", sess, stShort(sql), stWantText(want), stRender(r))
	}
	return nil
}

func stWantText(w string) string {
	if w == "" {
		return "success"
	}
	return w
}

func stShort(sql string) string {
	sql = strings.Join(strings.Fields(sql), " ")
	if len(sql) > 160 {
		sql = sql[:160] + "…"
	}
	return sql
}

func runSelfTestCase(tc stCase) (res SelfTestResult) {
	res = SelfTestResult{Name: tc.Name, Rule: tc.Rule, Basis: tc.Basis}
	if res.Basis == "" {
		res.Basis = "doc"
	}
	if tc.Skip != "" {
		res.Skipped, res.Detail = true, tc.Skip
		return
	}
	t0 := time.Now()
	defer func() {
		res.Elapsed = time.Since(t0)
		if p := recover(); p != nil {
			res.Passed = false
			res.Detail = fmt.Sprintf("PANIC %v", p)
		}
	}()
	db := NewDB()
	needFree := tc.Fn != nil
	for _, st := range tc.Steps {
		if st.Blocks {
			needFree = true
		}
	}
	if needFree {
		db.Mode = ModeFree
	}
	c := &stCtx{db: db, sess: map[int]*Session{}, pending: map[int]chan stRes{}}
	defer func() {
		// release whatever is still parked so that no goroutine outlives the case
		for i := 1; i <= 8; i++ {
			if s := c.sess[i]; s != nil && c.pending[i] == nil {
				s.Close()
			}
		}
		for i, ch := range c.pending {
			select {
			case <-ch:
			case <-time.After(time.Second):
			}
			if s := c.sess[i]; s != nil {
				s.Close()
			}
		}
	}()
	if tc.Fn != nil {
		if err := tc.Fn(c); err != nil {
			res.Detail = err.Error()
			return
		}
		res.Passed = true
		return
	}
	for i, st := range tc.Steps {
		sess := st.S
		if sess == 0 {
			sess = 1
		}
		switch {
		case st.Blocks:
			if err := c.start(sess, st.SQL); err != nil {
				res.Detail = fmt.Sprintf("step %d s%d %q: %v", i+1, sess, stShort(st.SQL), err)
				return
			}
		case st.Join:
			r, err := c.join(sess)
			if err != nil {
				res.Detail = fmt.Sprintf("step %d: %v", i+1, err)
				return
			}
			if !stMatch(st.Want, r) {
				res.Detail = fmt.Sprintf("step %d s%d (released statement): want %s, got %s", i+1, sess, stWantText(st.Want), stRender(r))
				return
			}
		default:
			r := c.exec(sess, st.SQL)
			if !stMatch(st.Want, r) {
				res.Detail = fmt.Sprintf("step %d s%d %q: want %s, got %s", i+1, sess, stShort(st.SQL), stWantText(st.Want), stRender(r))
				return
			}
		}
	}
	if len(c.pending) > 0 {
		res.Detail = "script ended with a statement still blocked"
		return
	}
	res.Passed = true
	return
}

// SelfTest runs every case on a fresh in-memory database.
func SelfTest() []SelfTestResult {
	cases := selfTestCases()
	out := make([]SelfTestResult, 0, len(cases))
	seen := map[string]bool{}
	for _, tc := range cases {
		if seen[tc.Name] {
			out = append(out, SelfTestResult{Name: tc.Name, Rule: tc.Rule, Detail: "duplicate case name"})
			continue
		}
		seen[tc.Name] = true
		out = append(out, runSelfTestCase(tc))
	}
	return out
}

// SelfTestSummary counts results.
func SelfTestSummary(rs []SelfTestResult) (cases, failed, skipped int) {
	for _, r := range rs {
		cases++
		switch {
		case r.Skipped:
			skipped++
		case !r.Passed:
			failed++
		}
	}
	return
}
