package pgsim

// ---------- expressions ----------

type Expr interface{}

type (
	Lit    struct{ V Value }
	ColRef struct{ Parts []string } // a | a.b | a.b.c
	StarX  struct{ Table string }   // * | t.*
	ParamX struct{ N int }
	BinOp  struct {
		Op   string
		L, R Expr
	}
	UnOp struct {
		Op string // "not" | "-" | "+"
		X  Expr
	}
	IsX struct {
		X    Expr
		What string // "null" | "true" | "false" | "unknown" | "distinct"
		Not  bool
		Y    Expr // for IS DISTINCT FROM
	}
	BetweenX struct {
		X, Lo, Hi Expr
		Not       bool
	}
	InX struct {
		X    Expr
		List []Expr
		Q    *Select
		Not  bool
	}
	ExistsX struct{ Q *Select }
	SubQ    struct{ Q *Select }
	AnyX    struct {
		X   Expr
		Op  string
		Arr Expr
		Q   *Select
		All bool
	}
	CaseX struct {
		Arg   Expr
		Whens []WhenX
		Else  Expr
	}
	WhenX  struct{ Cond, Then Expr }
	CastX  struct {
		X    Expr
		Type string
	}
	FuncX struct {
		Schema   string
		Name     string
		Args     []Expr
		ArgNames []string // parallel to Args, "" for positional
		Star     bool
		Distinct bool
		OrderBy  []OrderItem
		Over     *WindowSpec
	}
	RowX   struct{ Items []Expr }
	ArrayX struct{ Items []Expr }
	SubscriptX struct {
		X       Expr
		Idx     Expr
		IsSlice bool
		Lo, Hi  Expr
	}
	FieldX struct {
		X     Expr
		Field string
	}
	AtTZX struct{ X, Zone Expr }
)

type WindowSpec struct {
	PartitionBy []Expr
	OrderBy     []OrderItem
}

type OrderItem struct {
	X          Expr
	Desc       bool
	NullsFirst *bool
}

// ---------- queries ----------

type SelCol struct {
	X     Expr
	Alias string
}

type CTE struct {
	Name     string
	ColNames []string
	Stmt     Stmt // *Select | *Insert | *Update | *Delete
}

type Select struct {
	With       []*CTE
	Recursive  bool
	Distinct   bool
	DistinctOn []Expr
	Cols       []SelCol
	From       []FromItem
	Where      Expr
	GroupBy    []Expr
	Having     Expr
	OrderBy    []OrderItem
	Limit      Expr
	Offset     Expr
	Lock       string // "" | "update" | "share" | "no key update" | "key share"
	// set operation: SetOp != "" means this node is Left <SetOp> Right
	SetOp       string
	SetAll      bool
	Left, Right *Select
	Values      [][]Expr // VALUES (...), (...)
	Parens      bool
}

type FromItem interface{}

type (
	TableRef struct {
		Schema, Name string
		Alias        string
		ColAliases   []string
	}
	SubRef struct {
		Q          *Select
		Alias      string
		ColAliases []string
		Lateral    bool
	}
	FuncRef struct {
		Call       *FuncX
		Alias      string
		ColAliases []string
		Lateral    bool
	}
	JoinRef struct {
		Kind string // "inner" | "left" | "cross" | "right" | "full"
		L, R FromItem
		On   Expr
	}
)

// ---------- statements ----------

type Stmt interface{}

type SetClause struct {
	Cols []string // one column, or several for (a,b) = (…)
	X    Expr
	// field assignment on a composite column is not supported
}

type OnConflict struct {
	Cols       []string
	IndexWhere Expr
	Constraint string
	DoUpdate   bool
	Set        []SetClause
	Where      Expr
}

type Insert struct {
	With          []*CTE
	Schema, Table string
	Alias         string
	Cols          []string
	Source        *Select // nil => DEFAULT VALUES
	OnConflict    *OnConflict
	Returning     []SelCol
}

type Update struct {
	With          []*CTE
	Schema, Table string
	Alias         string
	Set           []SetClause
	From          []FromItem
	Where         Expr
	Returning     []SelCol
}

type Delete struct {
	With          []*CTE
	Schema, Table string
	Alias         string
	Using         []FromItem
	Where         Expr
	Returning     []SelCol
}

type ColDef struct {
	Name       string
	Type       string
	NotNull    bool
	Default    Expr
	PrimaryKey bool
	Unique     bool
	Check      Expr
	Serial     bool
	Refs       bool
}

type TableConstraint struct {
	Name  string
	Kind  string // "primary" | "unique" | "check" | "foreign"
	Cols  []string
	Check Expr
	NotValid bool
	UsingIndex string
}

type CreateTable struct {
	Schema, Name string
	IfNotExists  bool
	Temp         bool
	OnCommit     string // "" | "delete rows" | "drop"
	Cols         []ColDef
	Constraints  []TableConstraint
	As           *Select
}

type IndexElem struct {
	Col  string
	X    Expr
	Desc bool
}

type CreateIndex struct {
	Name          string
	Schema, Table string
	Unique        bool
	IfNotExists   bool
	Using         string
	Elems         []IndexElem
	Include       []string
	Where         Expr
}

type CreateSequence struct {
	Schema, Name string
	IfNotExists  bool
	Start        int64 // 0: default (1)
	Increment    int64 // 0: default (1)
	Cache        int64 // 0: default (1)
}

type FuncParam struct {
	Name    string
	Type    string
	Default Expr
	Mode    string
}

type CreateFunction struct {
	Schema, Name string
	OrReplace    bool
	Procedure    bool
	Params       []FuncParam
	Returns      string
	ReturnsSetOf bool
	Lang         string
	Body         string
	SetPath      string // "" | "<current>" | explicit value
	Volatility   string
}

type CreateAggregate struct {
	Schema, Name string
	OrReplace    bool
	ArgTypes     []string
	SFunc        string
	SType        string
	InitCond     *string
}

type CreateTrigger struct {
	Name          string
	Schema, Table string
	Timing        string // before | after
	Events        []string
	UpdateOf      []string
	When          Expr
	FuncSchema    string
	FuncName      string
	Constraint    bool
	Deferred      bool
}

type CreateType struct {
	Schema, Name string
	Enum         []string
	Fields       []ColDef
}

type CreateSchema struct {
	Name        string
	IfNotExists bool
}

type CreateExtension struct{ Name string }

type AlterAction struct {
	Kind       string // add_column drop_column alter_default drop_default set_not_null drop_not_null alter_type add_constraint drop_constraint validate_constraint rename_column set_storage add_pk_index
	Col        string
	NewName    string
	Def        ColDef
	Default    Expr
	Type       string
	Constraint TableConstraint
	IfExists   bool
	IfNotExists bool
}

type AlterTable struct {
	Schema, Name string
	IfExists     bool
	Actions      []AlterAction
}

type AlterIndexRename struct {
	Schema, Name string
	NewName      string
	IfExists     bool
}

type AlterTypeAddValue struct {
	Schema, Name string
	Value        string
	IfNotExists  bool
}

type Drop struct {
	Kind     string // table index function procedure aggregate trigger type schema sequence
	Schema   string
	Name     string
	OnSchema string // for trigger: table schema
	OnTable  string
	IfExists bool
	Cascade  bool
	NArgs    int // -1 when no signature was given
	More     []Drop
}

type SetStmt struct {
	Name  string
	Value string
	Local bool
}

type CallStmt struct{ Call *FuncX }

type DoStmt struct {
	Body string
	Lang string
}

type TxStmt struct {
	Kind string // begin commit rollback savepoint release rollback_to
	Name string
}

type NoopStmt struct{ What string }
