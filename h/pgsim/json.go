package pgsim

import (
	"bytes"
	"fmt"
	"math/big"
	"sort"
	"strconv"
	"strings"
	"unicode/utf16"
	"unicode/utf8"
)

type JKind int

const (
	JNull JKind = iota
	JBool
	JNumber
	JString
	JArray
	JObject
)

// JSON is a json/jsonb value. Objects keep key order and duplicates until Normalize
// (jsonb) sorts keys by (length, bytes) and keeps the last duplicate, as Postgres does.
type JSON struct {
	Kind JKind
	Bv   bool
	S    string // string value, or number text
	Arr  []*JSON
	Keys []string
	Vals []*JSON
	B    bool // jsonb (meaningful on the root)
	// Raw is the exact text of a json (NOT jsonb) value when it is known: the json type
	// stores a copy of the input text (doc 8.14: "json ... stores an exact copy of the
	// input text", white space, key order and duplicate keys are preserved), and the json
	// producers (json_build_object, json_agg, …) have their own fixed spacing. Raw is
	// ignored when B is set and is never carried over by Normalize.
	Raw string
}

func (j *JSON) kindName() string {
	switch j.Kind {
	case JNull:
		return "null"
	case JBool:
		return "boolean"
	case JNumber:
		return "numeric"
	case JString:
		return "string"
	case JArray:
		return "array"
	}
	return "object"
}

func jNull() *JSON            { return &JSON{Kind: JNull} }
func jString(s string) *JSON  { return &JSON{Kind: JString, S: s} }
func jNumber(s string) *JSON  { return &JSON{Kind: JNumber, S: s} }
func jBool(b bool) *JSON      { return &JSON{Kind: JBool, Bv: b} }
func jArray(a []*JSON) *JSON  { return &JSON{Kind: JArray, Arr: a} }
func jObject() *JSON          { return &JSON{Kind: JObject} }
func (j *JSON) asB() *JSON    { j.B = true; return j }
func (j *JSON) set(k string, v *JSON) {
	j.Keys = append(j.Keys, k)
	j.Vals = append(j.Vals, v)
}

func (j *JSON) Clone() *JSON {
	if j == nil {
		return nil
	}
	c := *j
	if j.Arr != nil {
		c.Arr = make([]*JSON, len(j.Arr))
		for i, e := range j.Arr {
			c.Arr[i] = e.Clone()
		}
	}
	if j.Keys != nil {
		c.Keys = append([]string(nil), j.Keys...)
		c.Vals = make([]*JSON, len(j.Vals))
		for i, e := range j.Vals {
			c.Vals[i] = e.Clone()
		}
	}
	return &c
}

// Normalize returns the jsonb canonical form.
func (j *JSON) Normalize() *JSON {
	switch j.Kind {
	case JArray:
		out := &JSON{Kind: JArray, B: true, Arr: make([]*JSON, len(j.Arr))}
		for i, e := range j.Arr {
			out.Arr[i] = e.Normalize()
		}
		return out
	case JObject:
		type kv struct {
			k string
			v *JSON
			i int
		}
		m := map[string]kv{}
		for i, k := range j.Keys {
			m[k] = kv{k, j.Vals[i], i}
		}
		kvs := make([]kv, 0, len(m))
		for _, e := range m {
			kvs = append(kvs, e)
		}
		sort.Slice(kvs, func(a, b int) bool {
			if len(kvs[a].k) != len(kvs[b].k) {
				return len(kvs[a].k) < len(kvs[b].k)
			}
			return kvs[a].k < kvs[b].k
		})
		out := &JSON{Kind: JObject, B: true}
		for _, e := range kvs {
			out.Keys = append(out.Keys, e.k)
			out.Vals = append(out.Vals, e.v.Normalize())
		}
		return out
	case JNumber:
		return &JSON{Kind: JNumber, S: normNumber(j.S), B: true}
	}
	c := *j
	c.B = true
	c.Raw = ""
	return &c
}

// normNumber gives the numeric text of a JSON number (jsonb stores numbers as numeric,
// doc 8.14: `'{"reading": 1.230e-5}'::jsonb` prints `{"reading": 0.00001230}`): the display
// scale is the number of fractional digits minus the exponent (never negative), trailing
// fractional zeros are kept, there is no negative zero.
func normNumber(s string) string {
	neg := strings.HasPrefix(s, "-")
	body := strings.TrimPrefix(s, "-")
	exp := 0
	if i := strings.IndexAny(body, "eE"); i >= 0 {
		e, err := strconv.Atoi(strings.TrimPrefix(body[i+1:], "+"))
		if err != nil || e > 100000 || e < -100000 {
			return s
		}
		exp, body = e, body[:i]
	}
	ip, fp := body, ""
	if i := strings.IndexByte(body, '.'); i >= 0 {
		ip, fp = body[:i], body[i+1:]
	}
	digits := ip + fp
	scale := len(fp) - exp
	if scale < 0 {
		digits += strings.Repeat("0", -scale)
		scale = 0
	}
	if len(digits) <= scale {
		digits = strings.Repeat("0", scale-len(digits)+1) + digits
	}
	ip, fp = digits[:len(digits)-scale], digits[len(digits)-scale:]
	ip = strings.TrimLeft(ip, "0")
	if ip == "" {
		ip = "0"
	}
	out := ip
	if scale > 0 {
		out += "." + fp
	}
	if neg && strings.Trim(digits, "0") != "" {
		out = "-" + out
	}
	return out
}

// ---------- parsing ----------

type jparser struct {
	s string
	i int
}

func ParseJSON(s string) (*JSON, error) {
	p := &jparser{s: s}
	p.ws()
	v, err := p.value(0)
	if err != nil {
		return nil, err
	}
	p.ws()
	if p.i != len(p.s) {
		return nil, pgErr("22P02", "invalid input syntax for type json")
	}
	return v, nil
}

func (p *jparser) ws() {
	for p.i < len(p.s) && (p.s[p.i] == ' ' || p.s[p.i] == '\t' || p.s[p.i] == '\n' || p.s[p.i] == '\r') {
		p.i++
	}
}

func (p *jparser) fail() error { return pgErr("22P02", "invalid input syntax for type json") }

// value parses one JSON value and records its exact source text (see JSON.Raw).
func (p *jparser) value(depth int) (*JSON, error) {
	st := p.i
	v, err := p.value1(depth)
	if err == nil {
		v.Raw = p.s[st:p.i]
	}
	return v, err
}

func (p *jparser) value1(depth int) (*JSON, error) {
	if depth > 512 || p.i >= len(p.s) {
		return nil, p.fail()
	}
	switch c := p.s[p.i]; {
	case c == '{':
		p.i++
		o := jObject()
		p.ws()
		if p.i < len(p.s) && p.s[p.i] == '}' {
			p.i++
			return o, nil
		}
		for {
			p.ws()
			if p.i >= len(p.s) || p.s[p.i] != '"' {
				return nil, p.fail()
			}
			k, err := p.str()
			if err != nil {
				return nil, err
			}
			p.ws()
			if p.i >= len(p.s) || p.s[p.i] != ':' {
				return nil, p.fail()
			}
			p.i++
			p.ws()
			v, err := p.value(depth + 1)
			if err != nil {
				return nil, err
			}
			o.set(k, v)
			p.ws()
			if p.i < len(p.s) && p.s[p.i] == ',' {
				p.i++
				continue
			}
			if p.i < len(p.s) && p.s[p.i] == '}' {
				p.i++
				return o, nil
			}
			return nil, p.fail()
		}
	case c == '[':
		p.i++
		a := &JSON{Kind: JArray, Arr: []*JSON{}}
		p.ws()
		if p.i < len(p.s) && p.s[p.i] == ']' {
			p.i++
			return a, nil
		}
		for {
			p.ws()
			v, err := p.value(depth + 1)
			if err != nil {
				return nil, err
			}
			a.Arr = append(a.Arr, v)
			p.ws()
			if p.i < len(p.s) && p.s[p.i] == ',' {
				p.i++
				continue
			}
			if p.i < len(p.s) && p.s[p.i] == ']' {
				p.i++
				return a, nil
			}
			return nil, p.fail()
		}
	case c == '"':
		s, err := p.str()
		if err != nil {
			return nil, err
		}
		return jString(s), nil
	case c == 't' && strings.HasPrefix(p.s[p.i:], "true"):
		p.i += 4
		return jBool(true), nil
	case c == 'f' && strings.HasPrefix(p.s[p.i:], "false"):
		p.i += 5
		return jBool(false), nil
	case c == 'n' && strings.HasPrefix(p.s[p.i:], "null"):
		p.i += 4
		return jNull(), nil
	case c == '-' || (c >= '0' && c <= '9'):
		st := p.i
		if p.s[p.i] == '-' {
			p.i++
		}
		if p.i >= len(p.s) {
			return nil, p.fail()
		}
		if p.s[p.i] == '0' {
			p.i++
		} else if p.s[p.i] >= '1' && p.s[p.i] <= '9' {
			for p.i < len(p.s) && p.s[p.i] >= '0' && p.s[p.i] <= '9' {
				p.i++
			}
		} else {
			return nil, p.fail()
		}
		if p.i < len(p.s) && p.s[p.i] == '.' {
			p.i++
			d := p.i
			for p.i < len(p.s) && p.s[p.i] >= '0' && p.s[p.i] <= '9' {
				p.i++
			}
			if d == p.i {
				return nil, p.fail()
			}
		}
		if p.i < len(p.s) && (p.s[p.i] == 'e' || p.s[p.i] == 'E') {
			p.i++
			if p.i < len(p.s) && (p.s[p.i] == '+' || p.s[p.i] == '-') {
				p.i++
			}
			d := p.i
			for p.i < len(p.s) && p.s[p.i] >= '0' && p.s[p.i] <= '9' {
				p.i++
			}
			if d == p.i {
				return nil, p.fail()
			}
		}
		return jNumber(p.s[st:p.i]), nil
	}
	return nil, p.fail()
}

func (p *jparser) str() (string, error) {
	p.i++ // opening quote
	var sb strings.Builder
	for p.i < len(p.s) {
		c := p.s[p.i]
		switch {
		case c == '"':
			p.i++
			return sb.String(), nil
		case c < 0x20:
			return "", p.fail()
		case c == '\\':
			p.i++
			if p.i >= len(p.s) {
				return "", p.fail()
			}
			switch p.s[p.i] {
			case '"':
				sb.WriteByte('"')
			case '\\':
				sb.WriteByte('\\')
			case '/':
				sb.WriteByte('/')
			case 'b':
				sb.WriteByte('\b')
			case 'f':
				sb.WriteByte('\f')
			case 'n':
				sb.WriteByte('\n')
			case 'r':
				sb.WriteByte('\r')
			case 't':
				sb.WriteByte('\t')
			case 'u':
				if p.i+4 >= len(p.s) {
					return "", p.fail()
				}
				n, err := strconv.ParseUint(p.s[p.i+1:p.i+5], 16, 32)
				if err != nil {
					return "", p.fail()
				}
				p.i += 4
				r := rune(n)
				if utf16.IsSurrogate(r) {
					if p.i+6 < len(p.s) && p.s[p.i+1] == '\\' && p.s[p.i+2] == 'u' {
						n2, err := strconv.ParseUint(p.s[p.i+3:p.i+7], 16, 32)
						if err == nil {
							r2 := utf16.DecodeRune(r, rune(n2))
							if r2 != utf8.RuneError {
								p.i += 6
								sb.WriteRune(r2)
								break
							}
						}
					}
					return "", pgErr("22P02", "invalid input syntax for type json: Unicode low/high surrogate")
				}
				if r == 0 {
					return "", pgErr("22P05", "unsupported Unicode escape sequence: \\u0000 cannot be converted to text")
				}
				sb.WriteRune(r)
			default:
				return "", p.fail()
			}
			p.i++
		default:
			sb.WriteByte(c)
			p.i++
		}
	}
	return "", p.fail()
}

// ---------- output ----------

func jsonQuote(sb *strings.Builder, s string) {
	sb.WriteByte('"')
	for i := 0; i < len(s); i++ {
		c := s[i]
		switch c {
		case '"':
			sb.WriteString(`\"`)
		case '\\':
			sb.WriteString(`\\`)
		case '\b':
			sb.WriteString(`\b`)
		case '\f':
			sb.WriteString(`\f`)
		case '\n':
			sb.WriteString(`\n`)
		case '\r':
			sb.WriteString(`\r`)
		case '\t':
			sb.WriteString(`\t`)
		default:
			if c < 0x20 {
				fmt.Fprintf(sb, `\u%04x`, c)
			} else {
				sb.WriteByte(c)
			}
		}
	}
	sb.WriteByte('"')
}

// String renders the jsonb text form (`{"a": 1, "b": [1, 2]}`); json values use the
// same spacing (their exact whitespace is not observable by the ledger).
func (j *JSON) String() string {
	var sb strings.Builder
	if j.B {
		j.write(&sb)
	} else {
		j.writeJSON(&sb)
	}
	return sb.String()
}

// writeJSON renders a json (not jsonb) value: verbatim when its text is known (Raw);
// otherwise the value was converted from SQL data (to_json, row_to_json, array_to_json:
// doc 9.16 Table 9.47, `row_to_json(row(1,'foo'))` → `{"f1":1,"f2":"foo"}`) and is printed
// without any white space. A jsonb value embedded in it keeps the jsonb format.
func (j *JSON) writeJSON(sb *strings.Builder) {
	if j.B {
		j.write(sb)
		return
	}
	if j.Raw != "" {
		sb.WriteString(j.Raw)
		return
	}
	switch j.Kind {
	case JArray:
		sb.WriteByte('[')
		for i, e := range j.Arr {
			if i > 0 {
				sb.WriteByte(',')
			}
			e.writeJSON(sb)
		}
		sb.WriteByte(']')
	case JObject:
		sb.WriteByte('{')
		for i, k := range j.Keys {
			if i > 0 {
				sb.WriteByte(',')
			}
			jsonQuote(sb, k)
			sb.WriteByte(':')
			j.Vals[i].writeJSON(sb)
		}
		sb.WriteByte('}')
	default:
		j.write(sb)
	}
}

// pinJSONText fixes the text of a json (not jsonb) container built by one of the json
// producers: open/close brackets, `sep` between members and `kv` between a key and its
// value are those of the producer (doc 9.16 Table 9.47: json_build_object →
// `{"foo" : 1, "2" : …}`, json_build_array → `[1, 2, "foo"]`; 9.21: json_agg `[1, 2]`,
// json_object_agg `{ "a" : 1, "b" : 2 }`). Each member keeps the text it has now, so a
// later `->` returns it verbatim, as Postgres does by re-scanning the text.
func pinJSONText(j *JSON, open, sep, kv, close string) *JSON {
	var sb strings.Builder
	sb.WriteString(open)
	pin := func(e *JSON) {
		t := e.String()
		e.B, e.Raw = false, t
		sb.WriteString(t)
	}
	switch j.Kind {
	case JArray:
		for i, e := range j.Arr {
			if i > 0 {
				sb.WriteString(sep)
			}
			pin(e)
		}
	case JObject:
		for i, k := range j.Keys {
			if i > 0 {
				sb.WriteString(sep)
			}
			jsonQuote(&sb, k)
			sb.WriteString(kv)
			pin(j.Vals[i])
		}
	}
	sb.WriteString(close)
	j.B, j.Raw = false, sb.String()
	return j
}

func (j *JSON) write(sb *strings.Builder) {
	switch j.Kind {
	case JNull:
		sb.WriteString("null")
	case JBool:
		if j.Bv {
			sb.WriteString("true")
		} else {
			sb.WriteString("false")
		}
	case JNumber:
		sb.WriteString(j.S)
	case JString:
		jsonQuote(sb, j.S)
	case JArray:
		sb.WriteByte('[')
		for i, e := range j.Arr {
			if i > 0 {
				sb.WriteString(", ")
			}
			e.write(sb)
		}
		sb.WriteByte(']')
	case JObject:
		sb.WriteByte('{')
		for i, k := range j.Keys {
			if i > 0 {
				sb.WriteString(", ")
			}
			jsonQuote(sb, k)
			sb.WriteString(": ")
			j.Vals[i].write(sb)
		}
		sb.WriteByte('}')
	}
}

// ---------- operators ----------

func (j *JSON) get(k string) *JSON {
	if j.Kind != JObject {
		return nil
	}
	for i := len(j.Keys) - 1; i >= 0; i-- {
		if j.Keys[i] == k {
			return j.Vals[i]
		}
	}
	return nil
}

func (j *JSON) idx(i int) *JSON {
	if j.Kind != JArray {
		return nil
	}
	if i < 0 {
		i += len(j.Arr)
	}
	if i < 0 || i >= len(j.Arr) {
		return nil
	}
	return j.Arr[i]
}

// textValue is ->>: strings unquoted, null -> SQL NULL, others their text.
func (j *JSON) textValue() Value {
	switch j.Kind {
	case JNull:
		return nil
	case JString:
		return Text(j.S)
	}
	return Text(j.String())
}

func jsonNumEq(a, b string) bool {
	if a == b {
		return true
	}
	ra, ok1 := new(big.Rat).SetString(a)
	rb, ok2 := new(big.Rat).SetString(b)
	return ok1 && ok2 && ra.Cmp(rb) == 0
}

func jsonEqual(a, b *JSON) bool {
	if a.Kind != b.Kind {
		return false
	}
	switch a.Kind {
	case JNull:
		return true
	case JBool:
		return a.Bv == b.Bv
	case JNumber:
		return jsonNumEq(a.S, b.S)
	case JString:
		return a.S == b.S
	case JArray:
		if len(a.Arr) != len(b.Arr) {
			return false
		}
		for i := range a.Arr {
			if !jsonEqual(a.Arr[i], b.Arr[i]) {
				return false
			}
		}
		return true
	}
	if len(a.Keys) != len(b.Keys) {
		return false
	}
	for i := range a.Keys {
		if a.Keys[i] != b.Keys[i] || !jsonEqual(a.Vals[i], b.Vals[i]) {
			return false
		}
	}
	return true
}

func jkindRank(k JKind) int {
	switch k {
	case JNull:
		return 0
	case JString:
		return 1
	case JNumber:
		return 2
	case JBool:
		return 3
	case JArray:
		return 4
	}
	return 5
}

func compareJSON(a, b *JSON) int {
	if a.Kind != b.Kind {
		return jkindRank(a.Kind) - jkindRank(b.Kind)
	}
	switch a.Kind {
	case JNull:
		return 0
	case JBool:
		if a.Bv == b.Bv {
			return 0
		}
		if !a.Bv {
			return -1
		}
		return 1
	case JNumber:
		ra, _ := new(big.Rat).SetString(a.S)
		rb, _ := new(big.Rat).SetString(b.S)
		if ra == nil || rb == nil {
			return strings.Compare(a.S, b.S)
		}
		return ra.Cmp(rb)
	case JString:
		return strings.Compare(a.S, b.S)
	case JArray:
		if len(a.Arr) != len(b.Arr) {
			return len(a.Arr) - len(b.Arr)
		}
		for i := range a.Arr {
			if c := compareJSON(a.Arr[i], b.Arr[i]); c != 0 {
				return c
			}
		}
		return 0
	}
	if len(a.Keys) != len(b.Keys) {
		return len(a.Keys) - len(b.Keys)
	}
	for i := range a.Keys {
		if c := strings.Compare(a.Keys[i], b.Keys[i]); c != 0 {
			return c
		}
		if c := compareJSON(a.Vals[i], b.Vals[i]); c != 0 {
			return c
		}
	}
	return 0
}

// jsonContains implements jsonb @> (doc §8.14.3).
func jsonContains(a, b *JSON, top bool) bool {
	switch {
	case a.Kind == JObject && b.Kind == JObject:
		for i, k := range b.Keys {
			av := a.get(k)
			if av == nil {
				return false
			}
			bv := b.Vals[i]
			if av.Kind == JObject || av.Kind == JArray {
				if av.Kind != bv.Kind || !jsonContains(av, bv, false) {
					return false
				}
			} else if !jsonEqual(av, bv) {
				return false
			}
		}
		return true
	case a.Kind == JArray && b.Kind == JArray:
		for _, be := range b.Arr {
			found := false
			for _, ae := range a.Arr {
				if be.Kind == JObject || be.Kind == JArray {
					if ae.Kind == be.Kind && jsonContains(ae, be, false) {
						found = true
						break
					}
				} else if jsonEqual(ae, be) {
					found = true
					break
				}
			}
			if !found {
				return false
			}
		}
		return true
	case a.Kind == JArray && top && b.Kind != JObject && b.Kind != JArray:
		for _, ae := range a.Arr {
			if jsonEqual(ae, b) {
				return true
			}
		}
		return false
	case a.Kind != JObject && a.Kind != JArray && b.Kind != JObject && b.Kind != JArray:
		return jsonEqual(a, b)
	}
	return false
}

// jsonConcat implements jsonb || jsonb.
func jsonConcat(a, b *JSON) *JSON {
	switch {
	case a.Kind == JObject && b.Kind == JObject:
		out := jObject()
		out.Keys = append(append([]string{}, a.Keys...), b.Keys...)
		out.Vals = append(append([]*JSON{}, a.Vals...), b.Vals...)
		return out.Normalize()
	case a.Kind == JArray && b.Kind == JArray:
		return jArray(append(append([]*JSON{}, a.Arr...), b.Arr...)).Normalize()
	case a.Kind == JArray:
		return jArray(append(append([]*JSON{}, a.Arr...), b)).Normalize()
	case b.Kind == JArray:
		return jArray(append([]*JSON{a}, b.Arr...)).Normalize()
	}
	return jArray([]*JSON{a, b}).Normalize()
}

func jsonDeleteKey(a *JSON, k string) (*JSON, error) {
	switch a.Kind {
	case JObject:
		out := jObject()
		for i, kk := range a.Keys {
			if kk != k {
				out.set(kk, a.Vals[i])
			}
		}
		return out.asB(), nil
	case JArray:
		out := &JSON{Kind: JArray, Arr: []*JSON{}}
		for _, e := range a.Arr {
			if !(e.Kind == JString && e.S == k) {
				out.Arr = append(out.Arr, e)
			}
		}
		return out.asB(), nil
	}
	return nil, pgErr("22023", "cannot delete from scalar")
}

func jsonHasKey(a *JSON, k string) bool {
	switch a.Kind {
	case JObject:
		return a.get(k) != nil
	case JArray:
		for _, e := range a.Arr {
			if e.Kind == JString && e.S == k {
				return true
			}
		}
	case JString:
		return a.S == k
	}
	return false
}

func jsonPath(a *JSON, path []string) *JSON {
	cur := a
	for _, p := range path {
		if cur == nil {
			return nil
		}
		switch cur.Kind {
		case JObject:
			cur = cur.get(p)
		case JArray:
			n, err := strconv.Atoi(p)
			if err != nil {
				return nil
			}
			cur = cur.idx(n)
		default:
			return nil
		}
	}
	return cur
}

// toJSON converts an SQL value to json (to_json / to_jsonb / json_build_object args).
func toJSON(v Value) (*JSON, error) {
	switch x := v.(type) {
	case nil:
		return jNull(), nil
	case bool:
		return jBool(x), nil
	case int64:
		return jNumber(strconv.FormatInt(x, 10)), nil
	case Numeric:
		return jNumber(x.I.String()), nil
	case Text:
		return jString(string(x)), nil
	case Unk:
		return jString(string(x)), nil
	case Timestamp:
		return jString(tsJSON(x)), nil
	case Bytes:
		s, _ := textOf(x)
		return jString(s), nil
	case *JSON:
		return x.Clone(), nil
	case *Array:
		out := &JSON{Kind: JArray, Arr: []*JSON{}}
		for _, it := range x.Items {
			e, err := toJSON(it)
			if err != nil {
				return nil, err
			}
			out.Arr = append(out.Arr, e)
		}
		return out, nil
	case *Record:
		out := jObject()
		for i, n := range x.Names {
			e, err := toJSON(x.Vals[i])
			if err != nil {
				return nil, err
			}
			if n == "" {
				n = fmt.Sprintf("f%d", i+1)
			}
			out.set(n, e)
		}
		return out, nil
	}
	return nil, engineErr("to_json of %T", v)
}

func jsonPretty(j *JSON, indent int, sb *strings.Builder) {
	pad := strings.Repeat("    ", indent)
	switch j.Kind {
	case JArray:
		if len(j.Arr) == 0 {
			sb.WriteString("[\n" + pad + "]")
			return
		}
		sb.WriteString("[\n")
		for i, e := range j.Arr {
			sb.WriteString(pad + "    ")
			jsonPretty(e, indent+1, sb)
			if i < len(j.Arr)-1 {
				sb.WriteByte(',')
			}
			sb.WriteByte('\n')
		}
		sb.WriteString(pad + "]")
	case JObject:
		if len(j.Keys) == 0 {
			sb.WriteString("{\n" + pad + "}")
			return
		}
		sb.WriteString("{\n")
		for i, k := range j.Keys {
			sb.WriteString(pad + "    ")
			jsonQuote(sb, k)
			sb.WriteString(": ")
			jsonPretty(j.Vals[i], indent+1, sb)
			if i < len(j.Keys)-1 {
				sb.WriteByte(',')
			}
			sb.WriteByte('\n')
		}
		sb.WriteString(pad + "}")
	default:
		j.write(sb)
	}
}

// evalJSONPathPredicate supports the one jsonpath form the ledger emits:
//   $[<n>] == "<string>"
func evalJSONPathPredicate(j *JSON, path string) (Value, error) {
	p := strings.TrimSpace(path)
	if !strings.HasPrefix(p, "$[") {
		return nil, engineErr("unsupported jsonpath %q", path)
	}
	end := strings.IndexByte(p, ']')
	if end < 0 {
		return nil, engineErr("unsupported jsonpath %q", path)
	}
	n, err := strconv.Atoi(strings.TrimSpace(p[2:end]))
	if err != nil {
		return nil, engineErr("unsupported jsonpath %q", path)
	}
	rest := strings.TrimSpace(p[end+1:])
	if !strings.HasPrefix(rest, "==") {
		return nil, engineErr("unsupported jsonpath %q", path)
	}
	lit := strings.TrimSpace(rest[2:])
	if len(lit) < 2 || lit[0] != '"' || lit[len(lit)-1] != '"' {
		return nil, engineErr("unsupported jsonpath literal %q", path)
	}
	// jsonpath string literals use JSON-like escapes
	want, perr := ParseJSON(lit)
	if perr != nil || want.Kind != JString {
		return nil, pgErr("42601", "syntax error in jsonpath %q", path)
	}
	// lax mode: a non-array is wrapped; out-of-range index yields no item -> false
	var item *JSON
	if j.Kind == JArray {
		item = j.idx(n)
	} else if n == 0 {
		item = j
	}
	if item == nil {
		return false, nil
	}
	if item.Kind != JString {
		if item.Kind == JNull {
			return false, nil
		}
		return false, nil
	}
	return item.S == want.S, nil
}

var _ = bytes.Compare
