package pgsim

import (
	"fmt"
	"strings"
)

// ---------- AST ----------

type plDecl struct {
	name string
	typ  string
	def  Expr
}

type plBlock struct {
	decls []plDecl
	body  []plStmt
}

type plStmt interface{}

type (
	plAssign struct {
		target []string
		x      Expr
	}
	plIf struct {
		conds  []Expr
		blocks [][]plStmt
		els    []plStmt
	}
	plLoop  struct{ body []plStmt }
	plWhile struct {
		cond Expr
		body []plStmt
	}
	plForInt struct {
		v            string
		lo, hi, step Expr
		reverse      bool
		body         []plStmt
	}
	plForQuery struct {
		vars []string
		q    *Select
		body []plStmt
	}
	plExit struct {
		when       Expr
		isContinue bool
	}
	plReturn struct {
		x    Expr
		hasX bool
	}
	plRaise struct {
		level   string
		msg     string
		args    []Expr
		errcode string // USING ERRCODE = '…' (SQLSTATE), "" = P0001
	}
	plPerform struct{ q *Select }
	plExecute struct {
		x    Expr
		into [][]string
	}
	plSQL struct {
		stmt Stmt
		into [][]string
		src  string
	}
	plAssert struct{ x, msg Expr }
	plCommit struct{}
	plNull   struct{}
	plNested struct{ b *plBlock }
)

// ---------- parser ----------

type plParser struct {
	src  string
	toks []token
	i    int
}

func parsePL(body string) (*plBlock, error) {
	toks, err := lex(body)
	if err != nil {
		return nil, err
	}
	p := &plParser{src: body, toks: toks}
	b, err := p.block()
	if err != nil {
		return nil, err
	}
	p.opt(";")
	if p.peek().k != tEOF {
		return nil, p.err("trailing tokens after function body")
	}
	return b, nil
}

func (p *plParser) peek() token { return p.toks[p.i] }
func (p *plParser) peekN(n int) token {
	if p.i+n < len(p.toks) {
		return p.toks[p.i+n]
	}
	return token{k: tEOF}
}
func (p *plParser) kw(s string) bool {
	if p.peek().isKw(s) {
		p.i++
		return true
	}
	return false
}
func (p *plParser) opt(op string) bool {
	if p.peek().isOp(op) {
		p.i++
		return true
	}
	return false
}
func (p *plParser) err(msg string) error {
	t := p.peek()
	st := t.pos - 50
	if st < 0 {
		st = 0
	}
	en := t.pos + 30
	if en > len(p.src) {
		en = len(p.src)
	}
	return &EngineError{Msg: "plpgsql parse: " + msg + " near " + strings.ReplaceAll(p.src[st:en], "\n", " ")}
}

func (p *plParser) expectSemi() error {
	if !p.opt(";") {
		return p.err("expected ';'")
	}
	return nil
}

// collectUntil gathers tokens up to (not including) the first token satisfying stop
// at parenthesis depth 0 and CASE depth 0.
func (p *plParser) collectUntil(stop func(t token) bool) []token {
	depth, caseDepth := 0, 0
	st := p.i
	for p.peek().k != tEOF {
		t := p.peek()
		if depth == 0 && caseDepth == 0 && stop(t) {
			break
		}
		if t.k == tOp {
			if t.s == "(" || t.s == "[" {
				depth++
			} else if t.s == ")" || t.s == "]" {
				depth--
			}
		} else if t.k == tIdent {
			if t.s == "case" {
				caseDepth++
			} else if t.s == "end" && caseDepth > 0 {
				caseDepth--
			}
		}
		p.i++
	}
	return p.toks[st:p.i]
}

func (p *plParser) exprFrom(toks []token) (Expr, error) {
	if len(toks) == 0 {
		return nil, p.err("empty expression")
	}
	ep := newParser(p.src, toks)
	e, err := ep.expr(0)
	if err != nil {
		return nil, err
	}
	if !ep.atEOF() {
		return nil, ep.errHere("unexpected token in PL/pgSQL expression")
	}
	return e, nil
}

func (p *plParser) block() (*plBlock, error) {
	b := &plBlock{}
	// optional label <<x>> not supported
	if p.kw("declare") {
		for !p.peek().isKw("begin") {
			if p.peek().k == tEOF {
				return nil, p.err("unterminated DECLARE")
			}
			name := p.peek()
			if name.k != tIdent && name.k != tQIdent {
				return nil, p.err("expected variable name")
			}
			p.i++
			p.kw("constant")
			// type: tokens up to ; := = default not
			tt := p.collectUntil(func(t token) bool {
				return t.isOp(";") || t.isOp(":=") || t.isOp("=") || t.isKw("default") || t.isKw("not")
			})
			if len(tt) == 0 {
				return nil, p.err("expected type")
			}
			tp := newParser(p.src, tt)
			typ, err := tp.typeName()
			if err != nil {
				// %rowtype / %type
				typ = strings.TrimSpace(p.src[tt[0].pos:tt[len(tt)-1].end])
			}
			d := plDecl{name: name.s, typ: typ}
			if p.kw("not") {
				p.kw("null")
			}
			if p.opt(":=") || p.opt("=") || p.kw("default") {
				et := p.collectUntil(func(t token) bool { return t.isOp(";") })
				d.def, err = p.exprFrom(et)
				if err != nil {
					return nil, err
				}
			}
			if err := p.expectSemi(); err != nil {
				return nil, err
			}
			b.decls = append(b.decls, d)
		}
	}
	if !p.kw("begin") {
		return nil, p.err("expected BEGIN")
	}
	body, err := p.stmts(func(t token) bool { return t.isKw("end") || t.isKw("exception") })
	if err != nil {
		return nil, err
	}
	b.body = body
	if p.peek().isKw("exception") {
		return nil, p.err("EXCEPTION blocks are not supported")
	}
	if !p.kw("end") {
		return nil, p.err("expected END")
	}
	return b, nil
}

func (p *plParser) stmts(stop func(t token) bool) ([]plStmt, error) {
	var out []plStmt
	for {
		t := p.peek()
		if t.k == tEOF {
			return nil, p.err("unexpected end of body")
		}
		if stop(t) {
			return out, nil
		}
		s, err := p.stmt()
		if err != nil {
			return nil, err
		}
		if s != nil {
			out = append(out, s)
		}
	}
}

func (p *plParser) stmt() (plStmt, error) {
	t := p.peek()
	if t.isOp(";") {
		p.i++
		return nil, nil
	}
	if t.k == tIdent {
		switch t.s {
		case "declare", "begin":
			b, err := p.block()
			if err != nil {
				return nil, err
			}
			p.opt(";")
			return &plNested{b}, nil
		case "if":
			p.i++
			st := &plIf{}
			for {
				ct := p.collectUntil(func(t token) bool { return t.isKw("then") })
				c, err := p.exprFrom(ct)
				if err != nil {
					return nil, err
				}
				if !p.kw("then") {
					return nil, p.err("expected THEN")
				}
				body, err := p.stmts(func(t token) bool {
					return t.isKw("elsif") || t.isKw("elseif") || t.isKw("else") || t.isKw("end")
				})
				if err != nil {
					return nil, err
				}
				st.conds = append(st.conds, c)
				st.blocks = append(st.blocks, body)
				if p.kw("elsif") || p.kw("elseif") {
					continue
				}
				if p.kw("else") {
					st.els, err = p.stmts(func(t token) bool { return t.isKw("end") })
					if err != nil {
						return nil, err
					}
				}
				break
			}
			if !p.kw("end") || !p.kw("if") {
				return nil, p.err("expected END IF")
			}
			return st, p.expectSemi()
		case "loop":
			p.i++
			body, err := p.loopBody()
			if err != nil {
				return nil, err
			}
			return &plLoop{body}, nil
		case "while":
			p.i++
			ct := p.collectUntil(func(t token) bool { return t.isKw("loop") })
			c, err := p.exprFrom(ct)
			if err != nil {
				return nil, err
			}
			p.kw("loop")
			body, err := p.loopBody()
			if err != nil {
				return nil, err
			}
			return &plWhile{c, body}, nil
		case "for":
			return p.forStmt()
		case "exit", "continue":
			p.i++
			st := &plExit{isContinue: t.s == "continue"}
			if p.kw("when") {
				ct := p.collectUntil(func(t token) bool { return t.isOp(";") })
				c, err := p.exprFrom(ct)
				if err != nil {
					return nil, err
				}
				st.when = c
			}
			return st, p.expectSemi()
		case "return":
			p.i++
			if p.peek().isKw("next") || p.peek().isKw("query") {
				return nil, p.err("RETURN NEXT/QUERY not supported")
			}
			st := &plReturn{}
			if !p.peek().isOp(";") {
				et := p.collectUntil(func(t token) bool { return t.isOp(";") })
				e, err := p.exprFrom(et)
				if err != nil {
					return nil, err
				}
				st.x, st.hasX = e, true
			}
			return st, p.expectSemi()
		case "raise":
			p.i++
			st := &plRaise{level: "exception"}
			switch p.peek().s {
			case "notice", "info", "warning", "exception", "debug", "log":
				if p.peek().k == tIdent {
					st.level = p.peek().s
					p.i++
				}
			}
			if p.peek().k == tString {
				st.msg = p.peek().s
				p.i++
				for p.opt(",") {
					et := p.collectUntil(func(t token) bool { return t.isOp(";") || t.isOp(",") || t.isKw("using") })
					e, err := p.exprFrom(et)
					if err != nil {
						return nil, err
					}
					st.args = append(st.args, e)
				}
			}
			// doc 43.9 RAISE … USING option = expression [, …]: ERRCODE (a five-character SQLSTATE
			// literal) is honoured, MESSAGE/DETAIL/HINT are accepted; anything else fails closed
			if p.peek().isKw("using") {
				p.i++
				for {
					opt := p.peek()
					if opt.k != tIdent {
						return nil, p.err("RAISE … USING: option name expected")
					}
					p.i++
					if !(p.opt("=") || p.opt(":=")) {
						return nil, p.err("RAISE … USING: '=' expected")
					}
					et := p.collectUntil(func(t token) bool { return t.isOp(";") || t.isOp(",") })
					switch opt.s {
					case "errcode":
						if len(et) != 1 || et[0].k != tString || len(et[0].s) != 5 {
							return nil, p.err("RAISE … USING ERRCODE: only a five-character SQLSTATE literal is supported")
						}
						st.errcode = et[0].s
					case "detail", "hint":
					case "message":
						if st.msg != "" || len(et) != 1 || et[0].k != tString {
							return nil, p.err("RAISE … USING MESSAGE: only a string literal without a format string is supported")
						}
						st.msg = et[0].s
					default:
						return nil, p.err("RAISE … USING " + opt.s + " not supported")
					}
					if !p.opt(",") {
						break
					}
				}
			}
			if !p.peek().isOp(";") {
				return nil, p.err("unsupported RAISE form")
			}
			return st, p.expectSemi()
		case "perform":
			p.i++
			et := p.collectUntil(func(t token) bool { return t.isOp(";") })
			toks := append([]token{{k: tIdent, s: "select", pos: t.pos, end: t.end}}, et...)
			sp := newParser(p.src, toks)
			q, err := sp.selectStmt()
			if err != nil {
				return nil, err
			}
			if !sp.atEOF() {
				return nil, sp.errHere("unexpected token in PERFORM")
			}
			return &plPerform{q}, p.expectSemi()
		case "execute":
			p.i++
			et := p.collectUntil(func(t token) bool { return t.isOp(";") || t.isKw("into") || t.isKw("using") })
			e, err := p.exprFrom(et)
			if err != nil {
				return nil, err
			}
			st := &plExecute{x: e}
			if p.kw("into") {
				p.kw("strict")
				st.into = p.targets()
			}
			if p.peek().isKw("using") {
				return nil, p.err("EXECUTE … USING not supported")
			}
			return st, p.expectSemi()
		case "assert":
			p.i++
			et := p.collectUntil(func(t token) bool { return t.isOp(";") || t.isOp(",") })
			e, err := p.exprFrom(et)
			if err != nil {
				return nil, err
			}
			st := &plAssert{x: e}
			if p.opt(",") {
				mt := p.collectUntil(func(t token) bool { return t.isOp(";") })
				st.msg, err = p.exprFrom(mt)
				if err != nil {
					return nil, err
				}
			}
			return st, p.expectSemi()
		case "commit":
			p.i++
			return &plCommit{}, p.expectSemi()
		case "null":
			p.i++
			return &plNull{}, p.expectSemi()
		case "select", "insert", "update", "delete", "with", "create", "drop", "alter", "set", "analyze", "call", "truncate", "lock":
			return p.sqlStmt()
		}
	}
	// assignment
	if t.k == tIdent || t.k == tQIdent {
		save := p.i
		var path []string
		for {
			nt := p.peek()
			if nt.k != tIdent && nt.k != tQIdent {
				break
			}
			path = append(path, nt.s)
			p.i++
			if p.peek().isOp(".") {
				p.i++
				continue
			}
			break
		}
		if p.opt(":=") || p.opt("=") {
			et := p.collectUntil(func(t token) bool { return t.isOp(";") })
			e, err := p.exprFrom(et)
			if err != nil {
				return nil, err
			}
			return &plAssign{target: path, x: e}, p.expectSemi()
		}
		p.i = save
	}
	return nil, p.err("unsupported PL/pgSQL statement")
}

func (p *plParser) loopBody() ([]plStmt, error) {
	body, err := p.stmts(func(t token) bool { return t.isKw("end") })
	if err != nil {
		return nil, err
	}
	if !p.kw("end") || !p.kw("loop") {
		return nil, p.err("expected END LOOP")
	}
	return body, p.expectSemi()
}

func (p *plParser) targets() [][]string {
	var out [][]string
	for {
		var path []string
		for {
			t := p.peek()
			if t.k != tIdent && t.k != tQIdent {
				break
			}
			path = append(path, t.s)
			p.i++
			if p.peek().isOp(".") && (p.peekN(1).k == tIdent || p.peekN(1).k == tQIdent) {
				p.i++
				continue
			}
			break
		}
		if len(path) == 0 {
			break
		}
		out = append(out, path)
		if !p.opt(",") {
			break
		}
	}
	return out
}

func (p *plParser) forStmt() (plStmt, error) {
	p.i++ // for
	var vars []string
	for {
		t := p.peek()
		if t.k != tIdent && t.k != tQIdent {
			return nil, p.err("expected loop variable")
		}
		vars = append(vars, t.s)
		p.i++
		if !p.opt(",") {
			break
		}
	}
	if !p.kw("in") {
		return nil, p.err("expected IN")
	}
	reverse := p.kw("reverse")
	hdr := p.collectUntil(func(t token) bool { return t.isKw("loop") })
	if !p.kw("loop") {
		return nil, p.err("expected LOOP")
	}
	// integer range?
	depth := 0
	dots := -1
	for i, t := range hdr {
		if t.k == tOp {
			switch t.s {
			case "(", "[":
				depth++
			case ")", "]":
				depth--
			case "..":
				if depth == 0 {
					dots = i
				}
			}
		}
	}
	if dots >= 0 {
		lo, err := p.exprFrom(hdr[:dots])
		if err != nil {
			return nil, err
		}
		rest := hdr[dots+1:]
		by := -1
		depth = 0
		for i, t := range rest {
			if t.isOp("(") {
				depth++
			} else if t.isOp(")") {
				depth--
			} else if depth == 0 && t.isKw("by") {
				by = i
			}
		}
		st := &plForInt{v: vars[0], lo: lo, reverse: reverse}
		if by >= 0 {
			st.hi, err = p.exprFrom(rest[:by])
			if err != nil {
				return nil, err
			}
			st.step, err = p.exprFrom(rest[by+1:])
			if err != nil {
				return nil, err
			}
		} else {
			st.hi, err = p.exprFrom(rest)
			if err != nil {
				return nil, err
			}
		}
		st.body, err = p.loopBody()
		return st, err
	}
	sp := newParser(p.src, hdr)
	q, err := sp.selectStmt()
	if err != nil {
		return nil, err
	}
	if !sp.atEOF() {
		return nil, sp.errHere("unexpected token in FOR query")
	}
	st := &plForQuery{vars: vars, q: q}
	st.body, err = p.loopBody()
	return st, err
}

// sqlStmt parses an embedded SQL command, extracting an INTO clause.
func (p *plParser) sqlStmt() (plStmt, error) {
	first := p.peek()
	toks := p.collectUntil(func(t token) bool { return t.isOp(";") })
	if err := p.expectSemi(); err != nil {
		return nil, err
	}
	st := &plSQL{}
	if len(toks) > 0 {
		st.src = p.src[toks[0].pos:toks[len(toks)-1].end]
	}
	// find INTO at depth 0 (not INSERT INTO)
	isDML := first.s == "select" || first.s == "insert" || first.s == "update" || first.s == "delete" || first.s == "with"
	if isDML {
		depth := 0
		for i := 0; i < len(toks); i++ {
			t := toks[i]
			if t.k == tOp && (t.s == "(" || t.s == "[") {
				depth++
			} else if t.k == tOp && (t.s == ")" || t.s == "]") {
				depth--
			} else if depth == 0 && t.isKw("into") && !(i > 0 && toks[i-1].isKw("insert")) {
				// parse targets
				j := i + 1
				if j < len(toks) && toks[j].isKw("strict") {
					j++
				}
				var targets [][]string
				for j < len(toks) {
					var path []string
					for j < len(toks) && (toks[j].k == tIdent || toks[j].k == tQIdent) {
						path = append(path, toks[j].s)
						j++
						if j+1 < len(toks) && toks[j].isOp(".") && (toks[j+1].k == tIdent || toks[j+1].k == tQIdent) {
							j++
							continue
						}
						break
					}
					if len(path) == 0 {
						break
					}
					targets = append(targets, path)
					if j < len(toks) && toks[j].isOp(",") {
						j++
						continue
					}
					break
				}
				if len(targets) == 0 {
					return nil, p.err("INTO without targets")
				}
				st.into = targets
				toks = append(append([]token{}, toks[:i]...), toks[j:]...)
				break
			}
		}
	}
	stmt, err := parseStatement(p.src, toks)
	if err != nil {
		return nil, err
	}
	st.stmt = stmt
	return st, nil
}

// ---------- runtime ----------

type plVar struct {
	typ string
	val Value
}

type plFrame struct {
	parent *plFrame
	vars   map[string]*plVar
	found  *bool
}

func (f *plFrame) lookup(name string) (Value, bool) {
	for c := f; c != nil; c = c.parent {
		if v, ok := c.vars[name]; ok {
			return v.val, true
		}
		if name == "found" && c.found != nil && c.parent == nil {
			return *c.found, true
		}
	}
	if f != nil && name == "found" {
		for c := f; c != nil; c = c.parent {
			if c.found != nil {
				return *c.found, true
			}
		}
	}
	return nil, false
}

func (f *plFrame) find(name string) *plVar {
	for c := f; c != nil; c = c.parent {
		if v, ok := c.vars[name]; ok {
			return v
		}
	}
	return nil
}

func (f *plFrame) setFound(b bool) {
	for c := f; c != nil; c = c.parent {
		if c.found != nil {
			*c.found = b
			return
		}
	}
}

type plSignal int

const (
	sigNone plSignal = iota
	sigExit
	sigContinue
	sigReturn
)

type plRun struct {
	s      *Session
	fr     *plFrame
	params []Value
	ret    Value
	isDo   bool
}

// ctx builds a fresh statement context (new command id, new READ COMMITTED snapshot).
func (r *plRun) ctx() *execCtx {
	s := r.s
	s.cid++
	return &execCtx{s: s, snap: s.snapshot(), cid: s.cid, pl: r.fr, params: r.params}
}

func (r *plRun) evalExpr(e Expr) (Value, error) {
	return r.ctx().eval(e, nil)
}

func (r *plRun) runBlock(b *plBlock) (plSignal, error) {
	fr := &plFrame{parent: r.fr, vars: map[string]*plVar{}}
	saved := r.fr
	r.fr = fr
	defer func() { r.fr = saved }()
	for _, d := range b.decls {
		v := &plVar{typ: d.typ}
		if d.def != nil {
			val, err := r.evalExpr(d.def)
			if err != nil {
				return sigNone, err
			}
			if strings.ToLower(d.typ) != "record" {
				val, err = r.ctx().cast(val, d.typ)
				if err != nil {
					return sigNone, err
				}
			}
			v.val = val
		}
		fr.vars[d.name] = v
	}
	return r.runStmts(b.body)
}

func (r *plRun) runStmts(body []plStmt) (plSignal, error) {
	for _, st := range body {
		sig, err := r.runStmt(st)
		if err != nil || sig != sigNone {
			return sig, err
		}
	}
	return sigNone, nil
}

func (r *plRun) truth(e Expr) (bool, error) {
	v, err := r.evalExpr(e)
	if err != nil {
		return false, err
	}
	if v == nil {
		return false, nil
	}
	return toBool(v)
}

func (r *plRun) assign(path []string, val Value) error {
	v := r.fr.find(path[0])
	if v == nil {
		return pgErr("42601", "%q is not a known variable", path[0])
	}
	x := r.ctx()
	if len(path) == 1 {
		lt := strings.ToLower(v.typ)
		if lt == "record" || lt == "" {
			if u, ok := val.(Unk); ok {
				val = Text(u)
			}
			v.val = val
			return nil
		}
		c, err := x.cast(val, v.typ)
		if err != nil {
			return err
		}
		v.val = c
		return nil
	}
	// field assignment on a composite / record variable (copy on write)
	rec, _ := v.val.(*Record)
	if rec == nil {
		td := r.s.findType(v.typ)
		if td == nil || td.Fields == nil {
			return pgErr("42703", "variable %q has no field %q", path[0], path[1])
		}
		rec = &Record{Type: td.Schema + "." + td.Name}
		for _, f := range td.Fields {
			rec.Names = append(rec.Names, f.Name)
			rec.Vals = append(rec.Vals, nil)
		}
	}
	nr := &Record{Type: rec.Type, Names: rec.Names, Vals: append([]Value(nil), rec.Vals...)}
	idx := -1
	for i, n := range nr.Names {
		if n == path[1] {
			idx = i
		}
	}
	if idx < 0 {
		return pgErr("42703", "record %q has no field %q", path[0], path[1])
	}
	if len(path) > 2 {
		return engineErr("nested field assignment %v", path)
	}
	// cast to the field's type when known
	ftype := ""
	if td := r.s.findType(rec.Type); td != nil {
		for _, f := range td.Fields {
			if f.Name == path[1] {
				ftype = f.Type
			}
		}
	} else if t := r.s.findRowType(rec.Type); t != nil && rec.Type != "" {
		if ci := t.colIndex(path[1]); ci >= 0 {
			ftype = t.Cols[ci].Type
		}
	}
	if ftype != "" && val != nil {
		c, err := x.cast(val, ftype)
		if err != nil {
			return err
		}
		val = c
	} else if u, ok := val.(Unk); ok {
		val = Text(u)
	}
	nr.Vals[idx] = val
	v.val = nr
	return nil
}

// assignRow stores the first row of rs into the INTO targets.
func (r *plRun) assignRow(targets [][]string, rs *RowSet) error {
	found := rs != nil && len(rs.Rows) > 0
	r.fr.setFound(found)
	var row []Value
	var cols []string
	if found {
		row = rs.Rows[0]
		cols = rs.Cols
	}
	if len(targets) == 1 && len(targets[0]) == 1 {
		v := r.fr.find(targets[0][0])
		if v == nil {
			return pgErr("42601", "%q is not a known variable", targets[0][0])
		}
		lt := strings.ToLower(v.typ)
		composite := lt == "record"
		var fields []ColDef
		qual := ""
		if !composite {
			if td := r.s.findType(v.typ); td != nil && td.Fields != nil {
				composite = true
				fields = td.Fields
				qual = td.Schema + "." + td.Name
			} else if baseTypeKnown(v.typ) == false {
				if t := r.s.findRowType(v.typ); t != nil {
					composite = true
					qual = t.qname()
					for _, c := range t.Cols {
						fields = append(fields, ColDef{Name: c.Name, Type: c.Type})
					}
				}
			}
		}
		if composite {
			if !found {
				v.val = nil
				return nil
			}
			// a single composite-valued column assigns directly
			if len(row) == 1 {
				if rec, ok := row[0].(*Record); ok {
					v.val = rec
					return nil
				}
			}
			rec := &Record{Type: "", Names: cols, Vals: row}
			if fields != nil {
				rec = &Record{Type: qual}
				x := r.ctx()
				for i, f := range fields {
					var fv Value
					if i < len(row) {
						c, err := x.cast(row[i], f.Type)
						if err != nil {
							return err
						}
						fv = c
					}
					rec.Names = append(rec.Names, f.Name)
					rec.Vals = append(rec.Vals, fv)
				}
			}
			v.val = rec
			return nil
		}
	}
	for i, tgt := range targets {
		var val Value
		if i < len(row) {
			val = row[i]
		}
		if err := r.assign(tgt, val); err != nil {
			return err
		}
	}
	return nil
}

func lastPart(s string) string {
	if i := strings.LastIndexByte(s, '.'); i >= 0 {
		return s[i+1:]
	}
	return s
}

func baseTypeKnown(t string) bool {
	switch baseType(t) {
	case "bigint", "text", "boolean", "timestamp", "timestamptz", "numeric", "bytea", "json", "jsonb", "date":
		return true
	}
	return strings.HasSuffix(t, "[]")
}

func (r *plRun) runStmt(st plStmt) (plSignal, error) {
	switch s := st.(type) {
	case *plNested:
		return r.runBlock(s.b)
	case *plAssign:
		v, err := r.evalExpr(s.x)
		if err != nil {
			return sigNone, err
		}
		return sigNone, r.assign(s.target, v)
	case *plIf:
		for i, c := range s.conds {
			ok, err := r.truth(c)
			if err != nil {
				return sigNone, err
			}
			if ok {
				return r.runStmts(s.blocks[i])
			}
		}
		return r.runStmts(s.els)
	case *plLoop:
		for n := 0; ; n++ {
			if n > 1_000_000 {
				return sigNone, engineErr("PL/pgSQL loop did not terminate")
			}
			sig, err := r.runStmts(s.body)
			if err != nil {
				return sigNone, err
			}
			if sig == sigExit {
				return sigNone, nil
			}
			if sig == sigReturn {
				return sig, nil
			}
		}
	case *plWhile:
		for n := 0; ; n++ {
			if n > 1_000_000 {
				return sigNone, engineErr("PL/pgSQL loop did not terminate")
			}
			ok, err := r.truth(s.cond)
			if err != nil {
				return sigNone, err
			}
			if !ok {
				return sigNone, nil
			}
			sig, err := r.runStmts(s.body)
			if err != nil {
				return sigNone, err
			}
			if sig == sigExit {
				return sigNone, nil
			}
			if sig == sigReturn {
				return sig, nil
			}
		}
	case *plForInt:
		lo, err := r.evalExpr(s.lo)
		if err != nil {
			return sigNone, err
		}
		hi, err := r.evalExpr(s.hi)
		if err != nil {
			return sigNone, err
		}
		step := int64(1)
		if s.step != nil {
			sv, err := r.evalExpr(s.step)
			if err != nil {
				return sigNone, err
			}
			b, _, ok := asBig(coerceUnkInt(sv))
			if !ok || b.Sign() <= 0 {
				return sigNone, pgErr("22023", "BY value of FOR loop must be greater than zero")
			}
			step = b.Int64()
		}
		lb, _, ok1 := asBig(coerceUnkInt(lo))
		hb, _, ok2 := asBig(coerceUnkInt(hi))
		if !ok1 || !ok2 {
			return sigNone, pgErr("22004", "lower/upper bound of FOR loop cannot be null")
		}
		fr := &plFrame{parent: r.fr, vars: map[string]*plVar{s.v: {typ: "bigint"}}}
		saved := r.fr
		r.fr = fr
		defer func() { r.fr = saved }()
		for i := lb.Int64(); (!s.reverse && i <= hb.Int64()) || (s.reverse && i >= hb.Int64()); {
			fr.vars[s.v].val = i
			sig, err := r.runStmts(s.body)
			if err != nil {
				return sigNone, err
			}
			if sig == sigExit {
				break
			}
			if sig == sigReturn {
				return sig, nil
			}
			if s.reverse {
				i -= step
			} else {
				i += step
			}
		}
		return sigNone, nil
	case *plForQuery:
		rs, err := r.ctx().runSelect(s.q, nil)
		if err != nil {
			return sigNone, err
		}
		for _, row := range rs.Rows {
			one := &RowSet{Cols: rs.Cols, Rows: [][]Value{row}}
			var tg [][]string
			for _, v := range s.vars {
				tg = append(tg, []string{v})
			}
			if err := r.assignRow(tg, one); err != nil {
				return sigNone, err
			}
			sig, err := r.runStmts(s.body)
			if err != nil {
				return sigNone, err
			}
			if sig == sigExit {
				break
			}
			if sig == sigReturn {
				return sig, nil
			}
		}
		r.fr.setFound(len(rs.Rows) > 0)
		return sigNone, nil
	case *plExit:
		if s.when != nil {
			ok, err := r.truth(s.when)
			if err != nil {
				return sigNone, err
			}
			if !ok {
				return sigNone, nil
			}
		}
		if s.isContinue {
			return sigContinue, nil
		}
		return sigExit, nil
	case *plReturn:
		if s.hasX {
			v, err := r.evalExpr(s.x)
			if err != nil {
				return sigNone, err
			}
			r.ret = v
		}
		return sigReturn, nil
	case *plRaise:
		msg := s.msg
		for _, a := range s.args {
			v, err := r.evalExpr(a)
			if err != nil {
				return sigNone, err
			}
			t := "<NULL>"
			if v != nil {
				t, _ = textOf(v)
			}
			msg = strings.Replace(msg, "%", t, 1)
		}
		if s.level == "exception" {
			code := "P0001"
			if s.errcode != "" {
				code = s.errcode
			}
			return sigNone, pgErr(code, "%s", msg)
		}
		return sigNone, nil
	case *plPerform:
		rs, err := r.ctx().runSelectTop(s.q)
		if err != nil {
			return sigNone, err
		}
		r.fr.setFound(len(rs.Rows) > 0)
		return sigNone, nil
	case *plExecute:
		v, err := r.evalExpr(s.x)
		if err != nil {
			return sigNone, err
		}
		if v == nil {
			return sigNone, pgErr("22004", "query string argument of EXECUTE is null")
		}
		sql, _ := textOf(v)
		rs, _, err := r.s.execSQLNested(sql)
		if err != nil {
			return sigNone, err
		}
		if s.into != nil {
			return sigNone, r.assignRow(s.into, rs)
		}
		return sigNone, nil
	case *plSQL:
		x := r.ctx()
		rs, n, err := x.execStmt(s.stmt)
		if err != nil {
			return sigNone, err
		}
		if s.into != nil {
			return sigNone, r.assignRow(s.into, rs)
		}
		switch s.stmt.(type) {
		case *Select:
			return sigNone, pgErr("42601", "query has no destination for result data")
		case *Insert, *Update, *Delete:
			r.fr.setFound(n > 0)
		}
		return sigNone, nil
	case *plAssert:
		ok, err := r.truth(s.x)
		if err != nil {
			return sigNone, err
		}
		if !ok {
			return sigNone, pgErr("P0004", "assertion failed")
		}
		return sigNone, nil
	case *plCommit:
		if !r.isDo {
			return sigNone, pgErr("2D000", "invalid transaction termination")
		}
		// COMMIT inside DO: only allowed outside an explicit transaction block; the
		// migrations that use it run on empty tables where the loop body never executes.
		if r.s.explicit {
			return sigNone, pgErr("2D000", "invalid transaction termination")
		}
		return sigNone, nil
	case *plNull:
		return sigNone, nil
	}
	return sigNone, engineErr("PL/pgSQL statement %T", st)
}

// ---------- function calls ----------

func (f *Function) parsed() error {
	f.parseOnce.Do(func() {
		switch f.Lang {
		case "plpgsql":
			f.plBody, f.parseErr = parsePL(f.Body)
		case "sql":
			toks, err := lex(f.Body)
			if err != nil {
				f.parseErr = err
				return
			}
			for _, st := range splitStatements(toks) {
				p, err := parseStatement(f.Body, st)
				if err != nil {
					f.parseErr = err
					return
				}
				f.sqlBody = append(f.sqlBody, p)
			}
		default:
			f.parseErr = engineErr("function language %q not supported", f.Lang)
		}
	})
	return f.parseErr
}

func (x *execCtx) bindArgs(fn *Function, args []Value, argNames []string) (*plFrame, []Value, error) {
	vals := make([]Value, len(fn.Params))
	given := make([]bool, len(fn.Params))
	pos := 0
	for i, a := range args {
		name := ""
		if i < len(argNames) {
			name = argNames[i]
		}
		if name == "" {
			if pos >= len(fn.Params) {
				return nil, nil, pgErr("42883", "too many arguments for %s", fn.Name)
			}
			vals[pos], given[pos] = a, true
			pos++
			continue
		}
		found := false
		for j, p := range fn.Params {
			if p.Name == name {
				vals[j], given[j] = a, true
				found = true
			}
		}
		if !found {
			return nil, nil, pgErr("42883", "function %s has no parameter named %q", fn.Name, name)
		}
	}
	fr := &plFrame{vars: map[string]*plVar{}, found: new(bool)}
	for j, p := range fn.Params {
		if !given[j] {
			if p.Default == nil {
				return nil, nil, pgErr("42883", "function %s: missing argument %d", fn.Name, j+1)
			}
			v, err := x.eval(p.Default, nil)
			if err != nil {
				return nil, nil, err
			}
			vals[j] = v
		}
		if vals[j] != nil {
			c, err := x.cast(vals[j], p.Type)
			if err != nil {
				// polymorphic pseudo-types accept anything
				if !strings.HasPrefix(strings.ToLower(p.Type), "any") {
					return nil, nil, err
				}
				c = vals[j]
				if u, ok := c.(Unk); ok {
					c = Text(u)
				}
			}
			vals[j] = c
		}
		if p.Name != "" {
			fr.vars[p.Name] = &plVar{typ: p.Type, val: vals[j]}
		}
	}
	return fr, vals, nil
}

func (x *execCtx) callFunction(fn *Function, args []Value, argNames []string) (*RowSet, error) {
	if x.depth > maxDepth {
		return nil, pgErr("54001", "stack depth limit exceeded")
	}
	if err := fn.parsed(); err != nil {
		return nil, err
	}
	fr, vals, err := x.bindArgs(fn, args, argNames)
	if err != nil {
		return nil, err
	}
	s := x.s
	if fn.SetPath != nil {
		saved := s.pathOverride
		s.pathOverride = fn.SetPath
		defer func() { s.pathOverride = saved }()
	}
	switch fn.Lang {
	case "plpgsql":
		run := &plRun{s: s, fr: fr, params: vals}
		_, err := run.runBlock(fn.plBody)
		if err != nil {
			return nil, err
		}
		ret := run.ret
		if ret != nil && fn.Returns != "" && strings.ToLower(fn.Returns) != "trigger" && strings.ToLower(fn.Returns) != "void" && strings.ToLower(fn.Returns) != "record" {
			c, err := x.cast(ret, fn.Returns)
			if err == nil {
				ret = c
			} else if !strings.HasPrefix(strings.ToLower(fn.Returns), "any") {
				return nil, err
			}
		}
		return &RowSet{Cols: []string{fn.Name}, Rows: [][]Value{{ret}}}, nil
	case "sql":
		var last *RowSet
		for _, st := range fn.sqlBody {
			nx := &execCtx{s: s, snap: x.snap, cid: x.cid, pl: fr, params: vals, depth: x.depth + 1}
			if fn.Volatile {
				s.cid++
				nx.snap, nx.cid = s.snapshot(), s.cid
			}
			rs, _, err := nx.execStmt(st)
			if err != nil {
				return nil, err
			}
			last = rs
		}
		if last == nil {
			return &RowSet{Cols: []string{fn.Name}}, nil
		}
		if !fn.SetOf && len(last.Rows) > 1 {
			last = &RowSet{Cols: last.Cols, Rows: last.Rows[:1]}
		}
		if len(last.Cols) > 1 {
			// composite result
			out := &RowSet{Cols: []string{fn.Name}}
			tname := strings.ToLower(lastPart(fn.Returns))
			var names []string
			if td := s.findType(fn.Returns); td != nil {
				for _, f := range td.Fields {
					names = append(names, f.Name)
				}
			} else if t := s.findRowType(fn.Returns); t != nil {
				names = t.colNames()
			} else {
				names = last.Cols
			}
			for _, r := range last.Rows {
				out.Rows = append(out.Rows, []Value{&Record{Type: tname, Names: names, Vals: r}})
			}
			return out, nil
		}
		if len(last.Cols) == 1 && fn.Returns != "" && len(last.Rows) > 0 {
			for i, r := range last.Rows {
				if r[0] != nil {
					if c, err := x.cast(r[0], fn.Returns); err == nil {
						last.Rows[i] = []Value{c}
					}
				}
			}
		}
		return last, nil
	}
	return nil, engineErr("function language %q", fn.Lang)
}

func (x *execCtx) callTriggerFunc(fn *Function, t *Table, tg *Trigger, event string, newRec, oldRec *Record) (*Record, error) {
	if err := fn.parsed(); err != nil {
		return nil, err
	}
	if fn.Lang != "plpgsql" {
		return nil, engineErr("trigger function language %q", fn.Lang)
	}
	s := x.s
	fr := &plFrame{vars: map[string]*plVar{}, found: new(bool)}
	fr.vars["new"] = &plVar{typ: "record", val: nil}
	fr.vars["old"] = &plVar{typ: "record", val: nil}
	if newRec != nil {
		fr.vars["new"].val = newRec
	}
	if oldRec != nil {
		fr.vars["old"].val = oldRec
	}
	fr.vars["tg_op"] = &plVar{typ: "text", val: Text(strings.ToUpper(event))}
	fr.vars["tg_name"] = &plVar{typ: "text", val: Text(tg.Name)}
	fr.vars["tg_table_name"] = &plVar{typ: "text", val: Text(t.Name)}
	fr.vars["tg_table_schema"] = &plVar{typ: "text", val: Text(t.Schema)}
	fr.vars["tg_when"] = &plVar{typ: "text", val: Text(strings.ToUpper(tg.Timing))}
	if fn.SetPath != nil {
		saved := s.pathOverride
		s.pathOverride = fn.SetPath
		defer func() { s.pathOverride = saved }()
	}
	run := &plRun{s: s, fr: fr}
	if _, err := run.runBlock(fn.plBody); err != nil {
		return nil, err
	}
	if run.ret == nil {
		return nil, nil
	}
	rec, ok := run.ret.(*Record)
	if !ok {
		return nil, pgErr("42804", "trigger function %s must return a row", fn.Name)
	}
	return rec, nil
}

var _ = fmt.Sprint
