package pgsim

import (
	"strconv"
	"strings"
)

func (p *parser) createStmt() (Stmt, error) {
	p.i++ // create
	orReplace := p.kws("or", "replace")
	temp := false
	if p.kw("temporary") || p.kw("temp") {
		temp = true
	}
	p.kw("unlogged")
	switch {
	case p.kw("schema"):
		s := &CreateSchema{}
		if p.kws("if", "not", "exists") {
			s.IfNotExists = true
		}
		n, err := p.ident()
		if err != nil {
			return nil, err
		}
		s.Name = n
		return s, nil
	case p.kw("extension"):
		p.kws("if", "not", "exists")
		n, err := p.ident()
		if err != nil {
			return nil, err
		}
		for !p.atEOF() && !p.peek().isOp(";") {
			p.i++
		}
		return &CreateExtension{Name: n}, nil
	case p.kw("table"):
		return p.createTable(temp)
	case p.kw("unique"):
		if err := p.expectKw("index"); err != nil {
			return nil, err
		}
		return p.createIndex(true)
	case p.kw("index"):
		return p.createIndex(false)
	case p.kw("sequence"):
		s := &CreateSequence{}
		if p.kws("if", "not", "exists") {
			s.IfNotExists = true
		}
		var err error
		s.Schema, s.Name, err = p.qualName()
		if err != nil {
			return nil, err
		}
		// options (CREATE SEQUENCE, Postgres docs): parsed, never skipped — CACHE changes the
		// order in which concurrent sessions receive values
		num := func() (int64, error) {
			neg := false
			if p.peek().isOp("-") {
				p.i++
				neg = true
			}
			if p.peek().k != tNumber {
				return 0, p.errHere("CREATE SEQUENCE: number expected")
			}
			v, err := strconv.ParseInt(p.peek().s, 10, 64)
			if err != nil {
				return 0, p.errHere("CREATE SEQUENCE: bad number")
			}
			p.i++
			if neg {
				v = -v
			}
			return v, nil
		}
		for !p.atEOF() && !p.peek().isOp(";") {
			switch {
			case p.kws("owned", "by"):
				if p.kw("none") {
					break
				}
				// table.column or schema.table.column
				for {
					if _, err := p.ident(); err != nil {
						return nil, err
					}
					if !p.peek().isOp(".") {
						break
					}
					p.i++
				}
			case p.kw("as"):
				if _, err := p.ident(); err != nil {
					return nil, err
				}
			case p.kw("cache"):
				if s.Cache, err = num(); err != nil {
					return nil, err
				}
				if s.Cache < 1 {
					return nil, p.errHere("CREATE SEQUENCE: CACHE must be >= 1")
				}
			case p.kw("start"):
				p.kw("with")
				if s.Start, err = num(); err != nil {
					return nil, err
				}
			case p.kw("increment"):
				p.kw("by")
				if s.Increment, err = num(); err != nil {
					return nil, err
				}
				if s.Increment < 1 {
					return nil, p.errHere("CREATE SEQUENCE: only positive INCREMENT is supported")
				}
			case p.kw("minvalue"), p.kw("maxvalue"):
				if _, err = num(); err != nil {
					return nil, err
				}
			case p.kw("no"):
				if !(p.kw("minvalue") || p.kw("maxvalue") || p.kw("cycle")) {
					return nil, p.errHere("CREATE SEQUENCE: unsupported NO option")
				}
			default:
				return nil, p.errHere("CREATE SEQUENCE: unsupported option")
			}
		}
		return s, nil
	case p.kw("function"):
		return p.createFunction(orReplace, false)
	case p.kw("procedure"):
		return p.createFunction(orReplace, true)
	case p.kw("aggregate"):
		return p.createAggregate(orReplace)
	case p.kw("constraint"):
		if err := p.expectKw("trigger"); err != nil {
			return nil, err
		}
		return p.createTrigger(true)
	case p.kw("trigger"):
		return p.createTrigger(false)
	case p.kw("type"):
		return p.createType()
	}
	return nil, p.errHere("unsupported CREATE")
}

func (p *parser) createTable(temp bool) (Stmt, error) {
	ct := &CreateTable{Temp: temp}
	if p.kws("if", "not", "exists") {
		ct.IfNotExists = true
	}
	var err error
	ct.Schema, ct.Name, err = p.qualName()
	if err != nil {
		return nil, err
	}
	if p.peek().isOp("(") {
		p.i++
		for {
			if p.peek().isOp(")") {
				break
			}
			if p.peek().isKw("primary") || p.peek().isKw("unique") || p.peek().isKw("check") || p.peek().isKw("constraint") || p.peek().isKw("foreign") {
				tc, err := p.tableConstraint()
				if err != nil {
					return nil, err
				}
				ct.Constraints = append(ct.Constraints, tc)
			} else {
				cd, err := p.columnDef()
				if err != nil {
					return nil, err
				}
				ct.Cols = append(ct.Cols, cd)
			}
			if !p.op(",") {
				break
			}
		}
		if err := p.expectOp(")"); err != nil {
			return nil, err
		}
	}
	if p.kws("on", "commit") {
		switch {
		case p.kws("delete", "rows"):
			ct.OnCommit = "delete rows"
		case p.kw("drop"):
			ct.OnCommit = "drop"
		case p.kws("preserve", "rows"):
		}
	}
	if p.kw("with") {
		// storage parameters
		if p.op("(") {
			for !p.peek().isOp(")") && !p.atEOF() {
				p.i++
			}
			p.op(")")
		}
	}
	if p.kw("as") {
		q, err := p.selectStmt()
		if err != nil {
			return nil, err
		}
		ct.As = q
	}
	return ct, nil
}

func (p *parser) columnDef() (ColDef, error) {
	cd := ColDef{}
	n, err := p.ident()
	if err != nil {
		return cd, err
	}
	cd.Name = n
	tn, err := p.typeName()
	if err != nil {
		return cd, err
	}
	cd.Type = tn
	switch strings.ToLower(tn) {
	case "serial", "bigserial", "serial4", "serial8", "smallserial":
		cd.Serial = true
		cd.NotNull = true
	}
	for {
		switch {
		case p.kws("not", "null"):
			cd.NotNull = true
		case p.kw("null"):
		case p.kws("primary", "key"):
			cd.PrimaryKey = true
			cd.NotNull = true
		case p.kw("unique"):
			cd.Unique = true
		case p.kw("default"):
			e, err := p.expr(bpCmp + 1)
			if err != nil {
				return cd, err
			}
			cd.Default = e
		case p.kw("check"):
			if err := p.expectOp("("); err != nil {
				return cd, err
			}
			e, err := p.expr(0)
			if err != nil {
				return cd, err
			}
			if err := p.expectOp(")"); err != nil {
				return cd, err
			}
			cd.Check = e
		case p.kw("references"):
			cd.Refs = true
			if _, _, err := p.qualName(); err != nil {
				return cd, err
			}
			if p.op("(") {
				for !p.peek().isOp(")") && !p.atEOF() {
					p.i++
				}
				p.op(")")
			}
			for p.kw("on") {
				p.next() // delete|update
				if !p.kw("cascade") && !p.kw("restrict") {
					if p.kw("set") {
						p.next()
					} else if p.kw("no") {
						p.kw("action")
					}
				}
			}
		case p.kw("constraint"):
			if _, err := p.ident(); err != nil {
				return cd, err
			}
		case p.kw("collate"):
			p.next()
		default:
			return cd, nil
		}
	}
}

func (p *parser) tableConstraint() (TableConstraint, error) {
	tc := TableConstraint{}
	if p.kw("constraint") {
		n, err := p.ident()
		if err != nil {
			return tc, err
		}
		tc.Name = n
	}
	colList := func() ([]string, error) {
		var out []string
		if err := p.expectOp("("); err != nil {
			return nil, err
		}
		for {
			c, err := p.ident()
			if err != nil {
				return nil, err
			}
			out = append(out, c)
			if !p.op(",") {
				break
			}
		}
		return out, p.expectOp(")")
	}
	var err error
	switch {
	case p.kws("primary", "key"):
		tc.Kind = "primary"
		if p.kws("using", "index") {
			tc.UsingIndex, err = p.ident()
			return tc, err
		}
		tc.Cols, err = colList()
	case p.kw("unique"):
		tc.Kind = "unique"
		if p.kws("using", "index") {
			tc.UsingIndex, err = p.ident()
			return tc, err
		}
		tc.Cols, err = colList()
	case p.kw("check"):
		tc.Kind = "check"
		if err := p.expectOp("("); err != nil {
			return tc, err
		}
		tc.Check, err = p.expr(0)
		if err != nil {
			return tc, err
		}
		err = p.expectOp(")")
	case p.kws("foreign", "key"):
		tc.Kind = "foreign"
		tc.Cols, err = colList()
		if err != nil {
			return tc, err
		}
		if err := p.expectKw("references"); err != nil {
			return tc, err
		}
		if _, _, err := p.qualName(); err != nil {
			return tc, err
		}
		if p.peek().isOp("(") {
			if _, err := colList(); err != nil {
				return tc, err
			}
		}
		for p.kw("on") {
			p.next()
			if !p.kw("cascade") && !p.kw("restrict") {
				if p.kw("set") {
					p.next()
				} else if p.kw("no") {
					p.kw("action")
				}
			}
		}
	default:
		return tc, p.errHere("unsupported table constraint")
	}
	if err != nil {
		return tc, err
	}
	if p.kws("not", "valid") {
		tc.NotValid = true
	}
	p.kw("deferrable")
	p.kws("initially", "deferred")
	p.kws("initially", "immediate")
	return tc, nil
}

func (p *parser) createIndex(unique bool) (Stmt, error) {
	ci := &CreateIndex{Unique: unique}
	p.kw("concurrently")
	if p.kws("if", "not", "exists") {
		ci.IfNotExists = true
	}
	if !p.peek().isKw("on") {
		n, err := p.ident()
		if err != nil {
			return nil, err
		}
		ci.Name = n
	}
	if err := p.expectKw("on"); err != nil {
		return nil, err
	}
	p.kw("only")
	var err error
	ci.Schema, ci.Table, err = p.qualName()
	if err != nil {
		return nil, err
	}
	if p.kw("using") {
		ci.Using, err = p.ident()
		if err != nil {
			return nil, err
		}
	}
	if err := p.expectOp("("); err != nil {
		return nil, err
	}
	for {
		var el IndexElem
		if p.peek().isOp("(") {
			p.i++
			el.X, err = p.expr(0)
			if err != nil {
				return nil, err
			}
			if err := p.expectOp(")"); err != nil {
				return nil, err
			}
		} else {
			e, err := p.expr(bpCast)
			if err != nil {
				return nil, err
			}
			if c, ok := e.(*ColRef); ok && len(c.Parts) == 1 {
				el.Col = c.Parts[0]
			} else {
				el.X = e
			}
		}
		// opclass / ordering
		for {
			if p.kw("desc") {
				el.Desc = true
			} else if p.kw("asc") {
			} else if p.kw("nulls") {
				p.next()
			} else if t := p.peek(); t.k == tIdent && !t.isKw("include") && !t.isKw("where") && !t.isKw("with") {
				p.i++ // operator class such as jsonb_path_ops
			} else {
				break
			}
		}
		ci.Elems = append(ci.Elems, el)
		if !p.op(",") {
			break
		}
	}
	if err := p.expectOp(")"); err != nil {
		return nil, err
	}
	if p.kw("include") {
		if err := p.expectOp("("); err != nil {
			return nil, err
		}
		for {
			c, err := p.ident()
			if err != nil {
				return nil, err
			}
			ci.Include = append(ci.Include, c)
			if !p.op(",") {
				break
			}
		}
		if err := p.expectOp(")"); err != nil {
			return nil, err
		}
	}
	if p.kw("with") {
		if p.op("(") {
			for !p.peek().isOp(")") && !p.atEOF() {
				p.i++
			}
			p.op(")")
		}
	}
	if p.kw("where") {
		ci.Where, err = p.expr(0)
		if err != nil {
			return nil, err
		}
	}
	return ci, nil
}

func (p *parser) createFunction(orReplace, procedure bool) (Stmt, error) {
	cf := &CreateFunction{OrReplace: orReplace, Procedure: procedure, Lang: "sql"}
	var err error
	cf.Schema, cf.Name, err = p.qualName()
	if err != nil {
		return nil, err
	}
	if err := p.expectOp("("); err != nil {
		return nil, err
	}
	if !p.peek().isOp(")") {
		for {
			fp := FuncParam{}
			if p.kw("in") {
			} else if p.kw("out") {
				fp.Mode = "out"
			} else if p.kw("inout") {
				fp.Mode = "inout"
			} else if p.kw("variadic") {
				fp.Mode = "variadic"
			}
			// name type | type
			save := p.i
			n, err := p.ident()
			if err != nil {
				return nil, err
			}
			if p.peek().isOp(",") || p.peek().isOp(")") || p.peek().isKw("default") || p.peek().isOp("=") || p.peek().isOp("[") || p.peek().isOp(".") || p.peek().isOp("(") {
				// unnamed parameter: it was the type
				p.i = save
				fp.Type, err = p.typeName()
				if err != nil {
					return nil, err
				}
			} else {
				// could still be a two-word type such as "character varying" without a name
				if n == "character" || n == "double" || (n == "timestamp" && (p.peek().isKw("without") || p.peek().isKw("with"))) {
					p.i = save
					fp.Type, err = p.typeName()
					if err != nil {
						return nil, err
					}
				} else {
					fp.Name = n
					fp.Type, err = p.typeName()
					if err != nil {
						return nil, err
					}
				}
			}
			if p.kw("default") || p.op("=") {
				fp.Default, err = p.expr(0)
				if err != nil {
					return nil, err
				}
			}
			cf.Params = append(cf.Params, fp)
			if !p.op(",") {
				break
			}
		}
	}
	if err := p.expectOp(")"); err != nil {
		return nil, err
	}
	for !p.atEOF() && !p.peek().isOp(";") {
		switch {
		case p.kw("returns"):
			if p.kw("setof") {
				cf.ReturnsSetOf = true
			}
			if p.kw("table") {
				return nil, p.errHere("RETURNS TABLE not supported")
			}
			cf.Returns, err = p.typeName()
			if err != nil {
				return nil, err
			}
		case p.kw("language"):
			t := p.next()
			cf.Lang = strings.ToLower(t.s)
		case p.kw("as"):
			t := p.next()
			if t.k != tString {
				return nil, p.errHere("expected function body")
			}
			cf.Body = t.s
		case p.kw("immutable"), p.kw("stable"), p.kw("volatile"):
			cf.Volatility = p.toks[p.i-1].s
		case p.kw("strict"), p.kw("leakproof"):
		case p.kws("called", "on", "null", "input"), p.kws("returns", "null", "on", "null", "input"):
		case p.kws("security", "definer"), p.kws("security", "invoker"):
		case p.kw("parallel"):
			p.next()
		case p.kw("cost"), p.kw("rows"):
			p.next()
		case p.kw("set"):
			name, err := p.ident()
			if err != nil {
				return nil, err
			}
			if p.kws("from", "current") {
				if name == "search_path" {
					cf.SetPath = "<current>"
				}
			} else {
				if !p.op("=") {
					p.kw("to")
				}
				var parts []string
				for {
					t := p.next()
					parts = append(parts, t.s)
					if !p.op(",") {
						break
					}
				}
				if name == "search_path" {
					cf.SetPath = strings.Join(parts, ",")
				}
			}
		default:
			return nil, p.errHere("unsupported function option")
		}
	}
	return cf, nil
}

func (p *parser) createAggregate(orReplace bool) (Stmt, error) {
	ca := &CreateAggregate{OrReplace: orReplace}
	var err error
	ca.Schema, ca.Name, err = p.qualName()
	if err != nil {
		return nil, err
	}
	if err := p.expectOp("("); err != nil {
		return nil, err
	}
	for !p.peek().isOp(")") {
		tn, err := p.typeName()
		if err != nil {
			return nil, err
		}
		ca.ArgTypes = append(ca.ArgTypes, tn)
		if !p.op(",") {
			break
		}
	}
	if err := p.expectOp(")"); err != nil {
		return nil, err
	}
	if err := p.expectOp("("); err != nil {
		return nil, err
	}
	for !p.peek().isOp(")") && !p.atEOF() {
		k, err := p.ident()
		if err != nil {
			return nil, err
		}
		if err := p.expectOp("="); err != nil {
			return nil, err
		}
		switch k {
		case "sfunc":
			s, n, err := p.qualName()
			if err != nil {
				return nil, err
			}
			if s != "" {
				n = s + "." + n
			}
			ca.SFunc = n
		case "stype":
			ca.SType, err = p.typeName()
			if err != nil {
				return nil, err
			}
		case "initcond":
			t := p.next()
			v := t.s
			ca.InitCond = &v
		default:
			p.next()
		}
		if !p.op(",") {
			break
		}
	}
	return ca, p.expectOp(")")
}

func (p *parser) createTrigger(constraint bool) (Stmt, error) {
	ct := &CreateTrigger{Constraint: constraint}
	n, err := p.ident()
	if err != nil {
		return nil, err
	}
	ct.Name = n
	switch {
	case p.kw("before"):
		ct.Timing = "before"
	case p.kw("after"):
		ct.Timing = "after"
	default:
		return nil, p.errHere("expected BEFORE or AFTER")
	}
	for {
		switch {
		case p.kw("insert"):
			ct.Events = append(ct.Events, "insert")
		case p.kw("delete"):
			ct.Events = append(ct.Events, "delete")
		case p.kw("update"):
			ct.Events = append(ct.Events, "update")
			if p.kw("of") {
				for {
					c, err := p.ident()
					if err != nil {
						return nil, err
					}
					ct.UpdateOf = append(ct.UpdateOf, c)
					if !p.op(",") {
						break
					}
				}
			}
		default:
			return nil, p.errHere("expected trigger event")
		}
		if !p.kw("or") {
			break
		}
	}
	if err := p.expectKw("on"); err != nil {
		return nil, err
	}
	ct.Schema, ct.Table, err = p.qualName()
	if err != nil {
		return nil, err
	}
	for {
		switch {
		case p.kws("deferrable"):
		case p.kws("not", "deferrable"):
		case p.kws("initially", "deferred"):
			ct.Deferred = true
		case p.kws("initially", "immediate"):
		case p.kws("for", "each", "row"), p.kws("for", "row"):
		case p.kws("for", "each", "statement"):
			return nil, p.errHere("statement-level triggers not supported")
		case p.kw("when"):
			if err := p.expectOp("("); err != nil {
				return nil, err
			}
			ct.When, err = p.expr(0)
			if err != nil {
				return nil, err
			}
			if err := p.expectOp(")"); err != nil {
				return nil, err
			}
		case p.kw("execute"):
			if !p.kw("procedure") {
				p.kw("function")
			}
			ct.FuncSchema, ct.FuncName, err = p.qualName()
			if err != nil {
				return nil, err
			}
			if err := p.expectOp("("); err != nil {
				return nil, err
			}
			return ct, p.expectOp(")")
		default:
			return nil, p.errHere("unsupported trigger clause")
		}
	}
}

func (p *parser) createType() (Stmt, error) {
	ct := &CreateType{}
	var err error
	ct.Schema, ct.Name, err = p.qualName()
	if err != nil {
		return nil, err
	}
	if err := p.expectKw("as"); err != nil {
		return nil, err
	}
	if p.kw("enum") {
		if err := p.expectOp("("); err != nil {
			return nil, err
		}
		for !p.peek().isOp(")") {
			t := p.next()
			if t.k != tString {
				return nil, p.errHere("expected enum label")
			}
			ct.Enum = append(ct.Enum, t.s)
			if !p.op(",") {
				break
			}
		}
		return ct, p.expectOp(")")
	}
	if err := p.expectOp("("); err != nil {
		return nil, err
	}
	for !p.peek().isOp(")") {
		n, err := p.ident()
		if err != nil {
			return nil, err
		}
		tn, err := p.typeName()
		if err != nil {
			return nil, err
		}
		ct.Fields = append(ct.Fields, ColDef{Name: n, Type: tn})
		if !p.op(",") {
			break
		}
	}
	return ct, p.expectOp(")")
}

func (p *parser) alterStmt() (Stmt, error) {
	p.i++ // alter
	switch {
	case p.kw("table"):
		at := &AlterTable{}
		if p.kws("if", "exists") {
			at.IfExists = true
		}
		p.kw("only")
		var err error
		at.Schema, at.Name, err = p.qualName()
		if err != nil {
			return nil, err
		}
		for {
			a, err := p.alterAction()
			if err != nil {
				return nil, err
			}
			at.Actions = append(at.Actions, a)
			if !p.op(",") {
				break
			}
		}
		return at, nil
	case p.kw("index"):
		ai := &AlterIndexRename{}
		if p.kws("if", "exists") {
			ai.IfExists = true
		}
		var err error
		ai.Schema, ai.Name, err = p.qualName()
		if err != nil {
			return nil, err
		}
		if !p.kws("rename", "to") {
			return nil, p.errHere("unsupported ALTER INDEX")
		}
		ai.NewName, err = p.ident()
		return ai, err
	case p.kw("type"):
		at := &AlterTypeAddValue{}
		var err error
		at.Schema, at.Name, err = p.qualName()
		if err != nil {
			return nil, err
		}
		if !p.kws("add", "value") {
			return nil, p.errHere("unsupported ALTER TYPE")
		}
		if p.kws("if", "not", "exists") {
			at.IfNotExists = true
		}
		t := p.next()
		if t.k != tString {
			return nil, p.errHere("expected enum label")
		}
		at.Value = t.s
		return at, nil
	case p.kw("sequence"), p.kw("function"), p.kw("schema"):
		for !p.atEOF() && !p.peek().isOp(";") {
			p.i++
		}
		return &NoopStmt{What: "alter"}, nil
	}
	return nil, p.errHere("unsupported ALTER")
}

func (p *parser) alterAction() (AlterAction, error) {
	a := AlterAction{}
	var err error
	switch {
	case p.kw("add"):
		if p.peek().isKw("constraint") || p.peek().isKw("primary") || p.peek().isKw("unique") || p.peek().isKw("check") || p.peek().isKw("foreign") {
			a.Kind = "add_constraint"
			a.Constraint, err = p.tableConstraint()
			return a, err
		}
		p.kw("column")
		if p.kws("if", "not", "exists") {
			a.IfNotExists = true
		}
		a.Kind = "add_column"
		a.Def, err = p.columnDef()
		return a, err
	case p.kw("drop"):
		if p.kw("constraint") {
			a.Kind = "drop_constraint"
			if p.kws("if", "exists") {
				a.IfExists = true
			}
			a.Col, err = p.ident()
			p.kw("cascade")
			return a, err
		}
		p.kw("column")
		if p.kws("if", "exists") {
			a.IfExists = true
		}
		a.Kind = "drop_column"
		a.Col, err = p.ident()
		p.kw("cascade")
		return a, err
	case p.kw("validate"):
		if err := p.expectKw("constraint"); err != nil {
			return a, err
		}
		a.Kind = "validate_constraint"
		a.Col, err = p.ident()
		return a, err
	case p.kw("rename"):
		if p.kw("to") {
			a.Kind = "rename_table"
			a.NewName, err = p.ident()
			return a, err
		}
		if p.kw("constraint") {
			a.Kind = "rename_constraint"
		} else {
			p.kw("column")
			a.Kind = "rename_column"
		}
		a.Col, err = p.ident()
		if err != nil {
			return a, err
		}
		if err := p.expectKw("to"); err != nil {
			return a, err
		}
		a.NewName, err = p.ident()
		return a, err
	case p.kw("set"):
		// set (fillfactor = 80) etc.
		a.Kind = "set_storage"
		if p.op("(") {
			for !p.peek().isOp(")") && !p.atEOF() {
				p.i++
			}
			p.op(")")
		} else {
			for !p.atEOF() && !p.peek().isOp(";") && !p.peek().isOp(",") {
				p.i++
			}
		}
		return a, nil
	case p.kw("alter"):
		p.kw("column")
		a.Col, err = p.ident()
		if err != nil {
			return a, err
		}
		switch {
		case p.kws("set", "default"):
			a.Kind = "alter_default"
			a.Default, err = p.expr(0)
			return a, err
		case p.kws("drop", "default"):
			a.Kind = "drop_default"
			return a, nil
		case p.kws("set", "not", "null"):
			a.Kind = "set_not_null"
			return a, nil
		case p.kws("drop", "not", "null"):
			a.Kind = "drop_not_null"
			return a, nil
		case p.kw("type"), p.kws("set", "data", "type"):
			a.Kind = "alter_type"
			a.Type, err = p.typeName()
			if err != nil {
				return a, err
			}
			if p.kw("using") {
				if _, err := p.expr(0); err != nil {
					return a, err
				}
			}
			return a, nil
		case p.kw("set"):
			a.Kind = "set_storage"
			for !p.atEOF() && !p.peek().isOp(";") && !p.peek().isOp(",") {
				p.i++
			}
			return a, nil
		}
	}
	return a, p.errHere("unsupported ALTER TABLE action")
}

func (p *parser) dropStmt() (Stmt, error) {
	p.i++ // drop
	d := &Drop{}
	switch {
	case p.kw("table"):
		d.Kind = "table"
	case p.kw("index"):
		d.Kind = "index"
		p.kw("concurrently")
	case p.kw("function"):
		d.Kind = "function"
	case p.kw("procedure"):
		d.Kind = "function"
	case p.kw("aggregate"):
		d.Kind = "aggregate"
	case p.kw("trigger"):
		d.Kind = "trigger"
	case p.kw("type"):
		d.Kind = "type"
	case p.kw("schema"):
		d.Kind = "schema"
	case p.kw("sequence"):
		d.Kind = "sequence"
	case p.kw("extension"):
		d.Kind = "extension"
	default:
		return nil, p.errHere("unsupported DROP")
	}
	if p.kws("if", "exists") {
		d.IfExists = true
	}
	first := true
	for {
		cur := d
		if !first {
			cur = &Drop{Kind: d.Kind, IfExists: d.IfExists}
		}
		var err error
		cur.Schema, cur.Name, err = p.qualName()
		if err != nil {
			return nil, err
		}
		cur.NArgs = -1
		if p.peek().isOp("(") && (d.Kind == "function" || d.Kind == "aggregate") {
			depth := 0
			cur.NArgs = 0
			any := false
			for !p.atEOF() {
				t := p.next()
				if t.isOp("(") {
					depth++
				} else if t.isOp(")") {
					depth--
					if depth == 0 {
						break
					}
				} else {
					any = true
					if depth == 1 && t.isOp(",") {
						cur.NArgs++
					}
				}
			}
			if any {
				cur.NArgs++
			}
		}
		if d.Kind == "trigger" {
			if err := p.expectKw("on"); err != nil {
				return nil, err
			}
			cur.OnSchema, cur.OnTable, err = p.qualName()
			if err != nil {
				return nil, err
			}
		}
		if !first {
			d.More = append(d.More, *cur)
		}
		first = false
		if !p.op(",") {
			break
		}
	}
	if p.kw("cascade") {
		d.Cascade = true
	} else {
		p.kw("restrict")
	}
	return d, nil
}
