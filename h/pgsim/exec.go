package pgsim

import (
	"fmt"
	"sort"
	"strings"
)

type relBinding struct {
	name    string
	cols    []string
	vals    []Value
	src     *Row
	tbl     *Table
	rowType string
	hidden  bool // not expanded by `*` (e.g. excluded, new/old)
}

type relShape struct {
	name    string
	cols    []string
	rowType string
}

type scope struct {
	parent  *scope
	rels    []*relBinding
	group   []*scope
	grouped bool
	win     map[*FuncX]Value
}

type RowSet struct {
	Cols []string
	Rows [][]Value
}

type cteState struct {
	def       *CTE
	done      bool
	running   bool
	rs        *RowSet
	recursive bool
	working   *RowSet // for recursive CTEs: current working table
}

type cteFrame struct {
	parent *cteFrame
	m      map[string]*cteState
	order  []string
}

func (f *cteFrame) find(name string) *cteState {
	for c := f; c != nil; c = c.parent {
		if st := c.m[name]; st != nil {
			return st
		}
	}
	return nil
}

type execCtx struct {
	s      *Session
	snap   Snapshot
	cid    uint32
	ctes   *cteFrame
	params []Value
	pl     *plFrame
	depth  int
	// afterTriggers queued by DML of this statement
	after []func() error
	top   *execCtx
}

func (x *execCtx) child() *execCtx {
	c := *x
	c.depth++
	if x.top == nil {
		c.top = x
	}
	return &c
}

func (x *execCtx) root() *execCtx {
	if x.top != nil {
		return x.top
	}
	return x
}

const maxDepth = 200

// ---------- SELECT ----------

func (x *execCtx) runSelect(q *Select, outer *scope) (*RowSet, error) {
	if x.depth > maxDepth {
		return nil, pgErr("54001", "stack depth limit exceeded")
	}
	if len(q.With) > 0 {
		fr := &cteFrame{parent: x.ctes, m: map[string]*cteState{}}
		for _, c := range q.With {
			fr.m[c.Name] = &cteState{def: c, recursive: q.Recursive}
			fr.order = append(fr.order, c.Name)
		}
		nx := *x
		nx.ctes = fr
		if nx.top == nil {
			nx.top = x
		}
		rs, err := nx.runSelectNoWith(q, outer)
		if err != nil {
			return nil, err
		}
		// data-modifying CTEs never referenced by the main query run after it
		for _, name := range fr.order {
			st := fr.m[name]
			if _, isSel := st.def.Stmt.(*Select); !isSel && !st.done {
				if _, err := nx.cteRows(st, outer); err != nil {
					return nil, err
				}
			}
		}
		return rs, nil
	}
	return x.runSelectNoWith(q, outer)
}

func (x *execCtx) cteRows(st *cteState, outer *scope) (*RowSet, error) {
	if st.done {
		return st.rs, nil
	}
	if st.running {
		if st.working != nil {
			return st.working, nil
		}
		return nil, engineErr("recursive reference to CTE %q not supported here", st.def.Name)
	}
	st.running = true
	defer func() { st.running = false }()
	var rs *RowSet
	var err error
	switch d := st.def.Stmt.(type) {
	case *Select:
		if st.recursive && d.SetOp == "union" && selectRefs(d.Right, st.def.Name) {
			rs, err = x.runRecursiveCTE(st, d, outer)
		} else {
			rs, err = x.runSelect(d, outer)
		}
	case *Insert:
		rs, _, err = x.runInsert(d, outer)
	case *Update:
		rs, _, err = x.runUpdate(d, outer)
	case *Delete:
		rs, _, err = x.runDelete(d, outer)
	default:
		err = engineErr("unsupported CTE statement %T", d)
	}
	if err != nil {
		return nil, err
	}
	if rs == nil {
		rs = &RowSet{}
	}
	if len(st.def.ColNames) > 0 {
		cols := append([]string(nil), rs.Cols...)
		for i, n := range st.def.ColNames {
			if i < len(cols) {
				cols[i] = n
			} else {
				cols = append(cols, n)
			}
		}
		rs = &RowSet{Cols: cols, Rows: rs.Rows}
	}
	st.rs = rs
	st.done = true
	return rs, nil
}

func (x *execCtx) runRecursiveCTE(st *cteState, d *Select, outer *scope) (*RowSet, error) {
	base, err := x.runSelect(d.Left, outer)
	if err != nil {
		return nil, err
	}
	cols := base.Cols
	if len(st.def.ColNames) > 0 {
		cols = append([]string(nil), cols...)
		for i, n := range st.def.ColNames {
			if i < len(cols) {
				cols[i] = n
			}
		}
	}
	result := &RowSet{Cols: cols, Rows: append([][]Value(nil), base.Rows...)}
	working := &RowSet{Cols: cols, Rows: base.Rows}
	for iter := 0; len(working.Rows) > 0; iter++ {
		if iter > 10000 {
			return nil, engineErr("recursive CTE did not terminate")
		}
		st.working = working
		next, err := x.runSelect(d.Right, outer)
		if err != nil {
			return nil, err
		}
		st.working = nil
		result.Rows = append(result.Rows, next.Rows...)
		working = &RowSet{Cols: cols, Rows: next.Rows}
	}
	if !d.SetAll {
		result.Rows, err = distinctRows(result.Rows)
		if err != nil {
			return nil, err
		}
	}
	return result, nil
}

// selectRefs reports whether q references relation `name` in a FROM clause (shallow).
func selectRefs(q *Select, name string) bool {
	if q == nil {
		return false
	}
	found := false
	var walkFrom func(it FromItem)
	walkFrom = func(it FromItem) {
		switch f := it.(type) {
		case *TableRef:
			if f.Schema == "" && f.Name == name {
				found = true
			}
		case *JoinRef:
			walkFrom(f.L)
			walkFrom(f.R)
		case *SubRef:
			if selectRefs(f.Q, name) {
				found = true
			}
		}
	}
	for _, it := range q.From {
		walkFrom(it)
	}
	if q.Left != nil && selectRefs(q.Left, name) {
		found = true
	}
	if q.Right != nil && selectRefs(q.Right, name) {
		found = true
	}
	return found
}

func distinctRows(rows [][]Value) ([][]Value, error) {
	seen := map[string]bool{}
	var out [][]Value
	for _, r := range rows {
		k, err := groupKey(r)
		if err != nil {
			return nil, err
		}
		if !seen[k] {
			seen[k] = true
			out = append(out, r)
		}
	}
	return out, nil
}

type outRow struct {
	vals []Value
	sc   *scope // input scope (or group representative) for ORDER BY expressions
	src  *relBinding
}

func (x *execCtx) runSelectNoWith(q *Select, outer *scope) (*RowSet, error) {
	if q.SetOp != "" {
		return x.runSetOp(q, outer)
	}
	if q.Values != nil {
		rs := &RowSet{}
		for _, row := range q.Values {
			var vals []Value
			for _, e := range row {
				v, err := x.eval(e, outer)
				if err != nil {
					return nil, err
				}
				vals = append(vals, v)
			}
			rs.Rows = append(rs.Rows, vals)
		}
		if len(rs.Rows) > 0 {
			for i := range rs.Rows[0] {
				rs.Cols = append(rs.Cols, fmt.Sprintf("column%d", i+1))
			}
			// resolve unknown literals per column against the first typed value
			for c := range rs.Cols {
				var like Value
				for _, r := range rs.Rows {
					if c < len(r) && r[c] != nil {
						if _, ok := r[c].(Unk); !ok {
							like = r[c]
							break
						}
					}
				}
				for _, r := range rs.Rows {
					if c < len(r) {
						if u, ok := r[c].(Unk); ok {
							if like == nil {
								r[c] = Text(u)
							} else if v, err := coerceLike(u, like); err == nil {
								r[c] = v
							} else {
								return nil, err
							}
						}
					}
				}
			}
		}
		return x.finishSimple(q, rs, outer)
	}

	shapes, combos, err := x.evalFrom(q.From, outer)
	if err != nil {
		return nil, err
	}
	// WHERE
	var scopes []*scope
	for _, c := range combos {
		sc := &scope{parent: outer, rels: c}
		if q.Where != nil {
			v, err := x.eval(q.Where, sc)
			if err != nil {
				return nil, err
			}
			if b, ok := v.(bool); !ok || !b {
				if v != nil && !ok {
					return nil, pgErr("42804", "argument of WHERE must be type boolean")
				}
				continue
			}
		}
		scopes = append(scopes, sc)
	}

	// FOR UPDATE before projection (single base table only)
	if q.Lock != "" {
		if len(q.From) != 1 {
			return nil, engineErr("FOR UPDATE over joins is not supported")
		}
		if _, ok := q.From[0].(*TableRef); !ok {
			return nil, engineErr("FOR UPDATE is only supported on a plain table")
		}
		if len(q.GroupBy) > 0 || q.Distinct || len(q.DistinctOn) > 0 {
			return nil, pgErr("0A000", "FOR UPDATE is not allowed with GROUP BY/DISTINCT")
		}
		return x.selectForUpdate(q, shapes, scopes, outer)
	}

	hasAgg := len(q.GroupBy) > 0 || q.Having != nil
	if !hasAgg {
		for _, c := range q.Cols {
			if x.containsAgg(c.X) {
				hasAgg = true
				break
			}
		}
	}
	if !hasAgg {
		for _, o := range q.OrderBy {
			if x.containsAgg(o.X) {
				hasAgg = true
			}
		}
	}

	var rowScopes []*scope
	if hasAgg {
		rowScopes, err = x.groupScopes(q, shapes, scopes, outer)
		if err != nil {
			return nil, err
		}
		if q.Having != nil {
			var kept []*scope
			for _, g := range rowScopes {
				v, err := x.eval(q.Having, g)
				if err != nil {
					return nil, err
				}
				if b, ok := v.(bool); ok && b {
					kept = append(kept, g)
				}
			}
			rowScopes = kept
		}
	} else {
		rowScopes = scopes
	}

	// window functions
	var wins []*FuncX
	for _, c := range q.Cols {
		collectWindows(c.X, &wins)
	}
	for _, o := range q.OrderBy {
		collectWindows(o.X, &wins)
	}
	if len(wins) > 0 {
		if err := x.computeWindows(wins, rowScopes); err != nil {
			return nil, err
		}
	}

	// projection
	cols, exprs, err := x.expandSelectList(q.Cols, shapes)
	if err != nil {
		return nil, err
	}
	// set-returning function directly in the select list
	srfIdx := -1
	for i, e := range exprs {
		if f, ok := e.x.(*FuncX); ok && f.Over == nil && isSRFName(f.Name) && e.rel == nil {
			srfIdx = i
			break
		}
	}
	var out []outRow
	for _, sc := range rowScopes {
		vals := make([]Value, len(exprs))
		var srfVals []Value
		for i, e := range exprs {
			if e.rel != nil {
				// direct column of a binding (star expansion)
				b := findBinding(sc, e.rel.name, e.relIdx)
				if b == nil {
					return nil, engineErr("star expansion lost binding %q", e.rel.name)
				}
				vals[i] = b.vals[e.colIdx]
				continue
			}
			if i == srfIdx {
				f := e.x.(*FuncX)
				rs, err := x.evalSRF(f, sc)
				if err != nil {
					return nil, err
				}
				for _, r := range rs.Rows {
					if len(r) == 1 {
						srfVals = append(srfVals, r[0])
					} else {
						srfVals = append(srfVals, &Record{Names: rs.Cols, Vals: r})
					}
				}
				continue
			}
			v, err := x.eval(e.x, sc)
			if err != nil {
				return nil, err
			}
			vals[i] = v
		}
		if srfIdx >= 0 {
			for _, sv := range srfVals {
				v2 := append([]Value(nil), vals...)
				v2[srfIdx] = sv
				out = append(out, outRow{vals: v2, sc: sc})
			}
			continue
		}
		out = append(out, outRow{vals: vals, sc: sc})
	}
	// unknown literals in the output become text
	for _, r := range out {
		for i, v := range r.vals {
			if u, ok := v.(Unk); ok {
				r.vals[i] = Text(u)
			}
		}
	}

	// ORDER BY
	if len(q.OrderBy) > 0 {
		if err := x.sortOut(out, q.OrderBy, cols, q.Cols); err != nil {
			return nil, err
		}
	} else if len(q.DistinctOn) > 0 {
		// Postgres implements DISTINCT ON by sorting on the keys
		items := make([]OrderItem, len(q.DistinctOn))
		for i, e := range q.DistinctOn {
			items[i] = OrderItem{X: e}
		}
		if err := x.sortOut(out, items, cols, q.Cols); err != nil {
			return nil, err
		}
	}
	if len(q.DistinctOn) > 0 {
		seen := map[string]bool{}
		var kept []outRow
		for _, r := range out {
			var key []Value
			for _, e := range q.DistinctOn {
				v, err := x.evalOrderExpr(e, r, cols, q.Cols)
				if err != nil {
					return nil, err
				}
				key = append(key, v)
			}
			k, err := groupKey(key)
			if err != nil {
				return nil, err
			}
			if !seen[k] {
				seen[k] = true
				kept = append(kept, r)
			}
		}
		out = kept
	} else if q.Distinct {
		seen := map[string]bool{}
		var kept []outRow
		for _, r := range out {
			k, err := groupKey(r.vals)
			if err != nil {
				return nil, err
			}
			if !seen[k] {
				seen[k] = true
				kept = append(kept, r)
			}
		}
		out = kept
	}
	rs := &RowSet{Cols: cols}
	for _, r := range out {
		rs.Rows = append(rs.Rows, r.vals)
	}
	return x.applyLimit(q, rs, outer)
}

func (x *execCtx) applyLimit(q *Select, rs *RowSet, outer *scope) (*RowSet, error) {
	if q.Offset != nil {
		v, err := x.eval(q.Offset, outer)
		if err != nil {
			return nil, err
		}
		if v != nil {
			b, _, ok := asBig(coerceUnkInt(v))
			if !ok {
				return nil, pgErr("42804", "argument of OFFSET must be integer")
			}
			n := int(b.Int64())
			if n < 0 {
				return nil, pgErr("2201X", "OFFSET must not be negative")
			}
			if n > len(rs.Rows) {
				n = len(rs.Rows)
			}
			rs.Rows = rs.Rows[n:]
		}
	}
	if q.Limit != nil {
		v, err := x.eval(q.Limit, outer)
		if err != nil {
			return nil, err
		}
		if v != nil {
			b, _, ok := asBig(coerceUnkInt(v))
			if !ok {
				return nil, pgErr("42804", "argument of LIMIT must be integer")
			}
			if b.Sign() < 0 {
				return nil, pgErr("2201W", "LIMIT must not be negative")
			}
			if b.IsInt64() && int(b.Int64()) < len(rs.Rows) {
				rs.Rows = rs.Rows[:int(b.Int64())]
			}
		}
	}
	return rs, nil
}

func coerceUnkInt(v Value) Value {
	if u, ok := v.(Unk); ok {
		if b, err := parseInteger(string(u), "bigint"); err == nil {
			return Numeric{b}
		}
	}
	if t, ok := v.(Text); ok {
		if b, err := parseInteger(string(t), "bigint"); err == nil {
			return Numeric{b}
		}
	}
	return v
}

// finishSimple applies ORDER BY / LIMIT to a VALUES result.
func (x *execCtx) finishSimple(q *Select, rs *RowSet, outer *scope) (*RowSet, error) {
	if len(q.OrderBy) > 0 {
		out := make([]outRow, len(rs.Rows))
		for i, r := range rs.Rows {
			out[i] = outRow{vals: r, sc: &scope{parent: outer, rels: []*relBinding{{name: "*values*", cols: rs.Cols, vals: r}}}}
		}
		if err := x.sortOut(out, q.OrderBy, rs.Cols, nil); err != nil {
			return nil, err
		}
		for i, r := range out {
			rs.Rows[i] = r.vals
		}
	}
	return x.applyLimit(q, rs, outer)
}

func (x *execCtx) runSetOp(q *Select, outer *scope) (*RowSet, error) {
	l, err := x.runSelect(q.Left, outer)
	if err != nil {
		return nil, err
	}
	var rs *RowSet
	if q.SetOp == "wrap" {
		rs = &RowSet{Cols: l.Cols, Rows: append([][]Value(nil), l.Rows...)}
	} else {
		r, err := x.runSelect(q.Right, outer)
		if err != nil {
			return nil, err
		}
		if len(l.Cols) != len(r.Cols) {
			return nil, pgErr("42601", "each %s query must have the same number of columns", strings.ToUpper(q.SetOp))
		}
		switch q.SetOp {
		case "union":
			rs = &RowSet{Cols: l.Cols, Rows: append(append([][]Value(nil), l.Rows...), r.Rows...)}
			if !q.SetAll {
				rs.Rows, err = distinctRows(rs.Rows)
				if err != nil {
					return nil, err
				}
			}
		case "except", "intersect":
			inR := map[string]bool{}
			for _, row := range r.Rows {
				k, err := groupKey(row)
				if err != nil {
					return nil, err
				}
				inR[k] = true
			}
			rs = &RowSet{Cols: l.Cols}
			seen := map[string]bool{}
			for _, row := range l.Rows {
				k, _ := groupKey(row)
				if seen[k] {
					continue
				}
				seen[k] = true
				if inR[k] == (q.SetOp == "intersect") {
					rs.Rows = append(rs.Rows, row)
				}
			}
		default:
			return nil, engineErr("set operation %q", q.SetOp)
		}
	}
	if len(q.OrderBy) > 0 {
		out := make([]outRow, len(rs.Rows))
		for i, r := range rs.Rows {
			out[i] = outRow{vals: r, sc: &scope{parent: outer, rels: []*relBinding{{name: "*setop*", cols: rs.Cols, vals: r}}}}
		}
		if err := x.sortOut(out, q.OrderBy, rs.Cols, nil); err != nil {
			return nil, err
		}
		for i, r := range out {
			rs.Rows[i] = r.vals
		}
	}
	if q.Lock != "" {
		return nil, pgErr("0A000", "FOR UPDATE is not allowed with UNION/INTERSECT/EXCEPT")
	}
	return x.applyLimit(q, rs, outer)
}

type selExpr struct {
	x      Expr
	rel    *relShape
	relIdx int
	colIdx int
}

func findBinding(sc *scope, name string, idx int) *relBinding {
	if idx < len(sc.rels) && sc.rels[idx].name == name {
		return sc.rels[idx]
	}
	for _, b := range sc.rels {
		if b.name == name {
			return b
		}
	}
	return nil
}

func (x *execCtx) expandSelectList(list []SelCol, shapes []relShape) ([]string, []selExpr, error) {
	var cols []string
	var exprs []selExpr
	for _, c := range list {
		switch e := c.X.(type) {
		case *StarX:
			matched := false
			for ri := range shapes {
				sh := &shapes[ri]
				if e.Table != "" && sh.name != e.Table {
					// allow schema-qualified form: last component
					parts := strings.Split(e.Table, ".")
					if sh.name != parts[len(parts)-1] {
						continue
					}
				}
				matched = true
				for ci, cn := range sh.cols {
					cols = append(cols, cn)
					exprs = append(exprs, selExpr{rel: sh, relIdx: ri, colIdx: ci})
				}
			}
			if !matched && e.Table != "" {
				// t.* where t is a composite-valued column or variable: (t).*
				exprs = append(exprs, selExpr{x: &FieldX{X: &ColRef{Parts: strings.Split(e.Table, ".")}, Field: "*"}})
				cols = append(cols, "?column?")
			}
		default:
			name := c.Alias
			if name == "" {
				name = exprName(c.X)
			}
			cols = append(cols, name)
			exprs = append(exprs, selExpr{x: c.X})
		}
	}
	return cols, exprs, nil
}

func exprName(e Expr) string {
	switch v := e.(type) {
	case *ColRef:
		return v.Parts[len(v.Parts)-1]
	case *FuncX:
		return v.Name
	case *CastX:
		n := exprName(v.X)
		if n == "?column?" {
			bt := strings.ToLower(v.Type)
			if i := strings.LastIndexByte(bt, '.'); i >= 0 {
				bt = bt[i+1:]
			}
			switch baseType(bt) {
			case "bigint":
				return "int8"
			case "boolean":
				return "bool"
			}
			return bt
		}
		return n
	case *FieldX:
		return v.Field
	case *parenX:
		return exprName(v.X)
	case *CaseX:
		return "case"
	case *ExistsX:
		return "exists"
	case *SubQ:
		if len(v.Q.Cols) == 1 {
			if v.Q.Cols[0].Alias != "" {
				return v.Q.Cols[0].Alias
			}
			return exprName(v.Q.Cols[0].X)
		}
	case *SubscriptX:
		return exprName(v.X)
	case *AtTZX:
		return "timezone"
	case *RowX:
		return "row"
	case *ArrayX:
		return "array"
	}
	return "?column?"
}

func (x *execCtx) evalOrderExpr(e Expr, r outRow, cols []string, list []SelCol) (Value, error) {
	if p, ok := e.(*parenX); ok {
		e = p.X
	}
	if c, ok := e.(*ColRef); ok && len(c.Parts) == 1 {
		// output column name takes precedence
		for i := len(cols) - 1; i >= 0; i-- {
			if cols[i] == c.Parts[0] {
				// prefer explicit aliases / plain columns; any match will do
				return r.vals[i], nil
			}
		}
	}
	if l, ok := e.(*Lit); ok {
		if n, ok := l.V.(int64); ok && n >= 1 && int(n) <= len(r.vals) {
			return r.vals[n-1], nil
		}
	}
	// identical to a select-list expression?
	for i, sc := range list {
		if sc.X == e && i < len(r.vals) {
			return r.vals[i], nil
		}
	}
	return x.eval(e, r.sc)
}

func (x *execCtx) sortOut(out []outRow, items []OrderItem, cols []string, list []SelCol) error {
	keys := make([][]Value, len(out))
	for i, r := range out {
		for _, it := range items {
			v, err := x.evalOrderExpr(it.X, r, cols, list)
			if err != nil {
				return err
			}
			keys[i] = append(keys[i], v)
		}
	}
	idx := make([]int, len(out))
	for i := range idx {
		idx[i] = i
	}
	var ferr error
	sort.SliceStable(idx, func(a, b int) bool {
		ka, kb := keys[idx[a]], keys[idx[b]]
		for k, it := range items {
			c, err := compareOrder(ka[k], kb[k], it)
			if err != nil {
				if ferr == nil {
					ferr = err
				}
				return false
			}
			if c != 0 {
				return c < 0
			}
		}
		return false
	})
	if ferr != nil {
		return ferr
	}
	sorted := make([]outRow, len(out))
	for i, j := range idx {
		sorted[i] = out[j]
	}
	copy(out, sorted)
	return nil
}

func compareOrder(a, b Value, it OrderItem) (int, error) {
	nullsFirst := it.Desc
	if it.NullsFirst != nil {
		nullsFirst = *it.NullsFirst
	}
	if a == nil || b == nil {
		if a == nil && b == nil {
			return 0, nil
		}
		if a == nil {
			if nullsFirst {
				return -1, nil
			}
			return 1, nil
		}
		if nullsFirst {
			return 1, nil
		}
		return -1, nil
	}
	c, err := compareValues(a, b)
	if err != nil {
		return 0, err
	}
	if it.Desc {
		c = -c
	}
	return c, nil
}

// ---------- FROM ----------

func nullBindings(shapes []relShape) []*relBinding {
	var out []*relBinding
	for _, sh := range shapes {
		out = append(out, &relBinding{name: sh.name, cols: sh.cols, vals: make([]Value, len(sh.cols)), rowType: sh.rowType})
	}
	return out
}

func (x *execCtx) evalFrom(items []FromItem, outer *scope) ([]relShape, [][]*relBinding, error) {
	combos := [][]*relBinding{{}}
	var shapes []relShape
	for _, it := range items {
		var next [][]*relBinding
		var itShapes []relShape
		var cached [][]*relBinding
		cacheable := !itemIsLateral(it)
		for ci, left := range combos {
			var rows [][]*relBinding
			if cacheable && ci > 0 {
				rows = cached
			} else {
				sc := outer
				if !cacheable {
					sc = &scope{parent: outer, rels: left}
				}
				sh, r, err := x.itemRows(it, sc)
				if err != nil {
					return nil, nil, err
				}
				itShapes = sh
				rows = r
				cached = r
			}
			for _, r := range rows {
				next = append(next, append(append([]*relBinding(nil), left...), r...))
			}
		}
		if itShapes == nil {
			// never evaluated (no left rows): learn the shape with a null-extended scope
			sc := &scope{parent: outer, rels: nullBindings(shapes)}
			sh, _, err := x.itemRows(it, sc)
			if err == nil {
				itShapes = sh
			}
		}
		shapes = append(shapes, itShapes...)
		combos = next
	}
	return shapes, combos, nil
}

func itemIsLateral(it FromItem) bool {
	switch f := it.(type) {
	case *SubRef:
		return f.Lateral
	case *FuncRef:
		return true
	case *JoinRef:
		return itemIsLateral(f.L) || itemIsLateral(f.R)
	}
	return false
}

func (x *execCtx) itemRows(it FromItem, sc *scope) ([]relShape, [][]*relBinding, error) {
	switch f := it.(type) {
	case *TableRef:
		return x.tableRows(f, sc)
	case *SubRef:
		rs, err := x.child().runSelect(f.Q, sc)
		if err != nil {
			return nil, nil, err
		}
		cols := rs.Cols
		if len(f.ColAliases) > 0 {
			cols = append([]string(nil), cols...)
			for i, a := range f.ColAliases {
				if i < len(cols) {
					cols[i] = a
				}
			}
		}
		sh := relShape{name: f.Alias, cols: cols}
		rows := make([][]*relBinding, len(rs.Rows))
		for i, r := range rs.Rows {
			rows[i] = []*relBinding{{name: f.Alias, cols: cols, vals: r}}
		}
		return []relShape{sh}, rows, nil
	case *FuncRef:
		rs, err := x.evalSRF(f.Call, sc)
		if err != nil {
			return nil, nil, err
		}
		alias := f.Alias
		if alias == "" {
			alias = f.Call.Name
		}
		cols := rs.Cols
		if len(cols) == 1 && f.Alias != "" && len(f.ColAliases) == 0 && !rs.namedCols() {
			cols = []string{f.Alias}
		}
		if len(f.ColAliases) > 0 {
			cols = append([]string(nil), cols...)
			for i, a := range f.ColAliases {
				if i < len(cols) {
					cols[i] = a
				}
			}
		}
		sh := relShape{name: alias, cols: cols}
		rows := make([][]*relBinding, len(rs.Rows))
		for i, r := range rs.Rows {
			rows[i] = []*relBinding{{name: alias, cols: cols, vals: r}}
		}
		return []relShape{sh}, rows, nil
	case *JoinRef:
		lsh, lrows, err := x.itemRows(f.L, sc)
		if err != nil {
			return nil, nil, err
		}
		var rsh []relShape
		var out [][]*relBinding
		var cached [][]*relBinding
		cacheable := !itemIsLateral(f.R)
		evalRight := func(left []*relBinding) ([][]*relBinding, error) {
			rsc := sc
			if !cacheable {
				rsc = &scope{parent: sc, rels: left}
			} else if cached != nil {
				return cached, nil
			}
			sh, rows, err := x.itemRows(f.R, rsc)
			if err != nil {
				return nil, err
			}
			rsh = sh
			if cacheable {
				cached = rows
				if cached == nil {
					cached = [][]*relBinding{}
				}
			}
			return rows, nil
		}
		if f.Kind == "right" || f.Kind == "full" {
			return nil, nil, engineErr("%s join not supported", f.Kind)
		}
		for _, l := range lrows {
			rrows, err := evalRight(l)
			if err != nil {
				return nil, nil, err
			}
			matched := false
			for _, r := range rrows {
				combo := append(append([]*relBinding(nil), l...), r...)
				if f.On != nil {
					v, err := x.eval(f.On, &scope{parent: sc, rels: combo})
					if err != nil {
						return nil, nil, err
					}
					if b, ok := v.(bool); !ok || !b {
						continue
					}
				}
				matched = true
				out = append(out, combo)
			}
			if !matched && f.Kind == "left" {
				out = append(out, append(append([]*relBinding(nil), l...), nullBindings(rsh)...))
			}
		}
		if rsh == nil {
			rsc := &scope{parent: sc, rels: nullBindings(lsh)}
			sh, _, err := x.itemRows(f.R, rsc)
			if err == nil {
				rsh = sh
			}
		}
		return append(append([]relShape(nil), lsh...), rsh...), out, nil
	}
	return nil, nil, engineErr("unsupported FROM item %T", it)
}

func (rs *RowSet) namedCols() bool {
	return len(rs.Cols) == 1 && rs.Cols[0] != "" && rs.Cols[0][0] != '\x00'
}

func (x *execCtx) tableRows(f *TableRef, sc *scope) ([]relShape, [][]*relBinding, error) {
	alias := f.Alias
	if alias == "" {
		alias = f.Name
	}
	if f.Schema == "" {
		if st := x.ctes.find(f.Name); st != nil {
			rs, err := x.cteRows(st, nil)
			if err != nil {
				return nil, nil, err
			}
			cols := rs.Cols
			if len(f.ColAliases) > 0 {
				cols = append([]string(nil), cols...)
				for i, a := range f.ColAliases {
					if i < len(cols) {
						cols[i] = a
					}
				}
			}
			rows := make([][]*relBinding, len(rs.Rows))
			for i, r := range rs.Rows {
				rows[i] = []*relBinding{{name: alias, cols: cols, vals: r}}
			}
			return []relShape{{name: alias, cols: cols}}, rows, nil
		}
	}
	t, err := x.s.findTable(f.Schema, f.Name)
	if err != nil {
		return nil, nil, err
	}
	cols := t.colNames()
	var rows [][]*relBinding
	for _, r := range t.Rows {
		if x.s.db.rowVisible(r, x.snap) {
			rows = append(rows, []*relBinding{{name: alias, cols: cols, vals: r.Vals, src: r, tbl: t, rowType: t.qname()}})
		}
	}
	return []relShape{{name: alias, cols: cols, rowType: t.qname()}}, rows, nil
}

// ---------- grouping ----------

func (x *execCtx) groupScopes(q *Select, shapes []relShape, scopes []*scope, outer *scope) ([]*scope, error) {
	if len(q.GroupBy) == 0 {
		rep := &scope{parent: outer, rels: nullBindings(shapes), grouped: true, group: scopes}
		if len(scopes) > 0 {
			rep.rels = scopes[0].rels
		}
		if rep.group == nil {
			rep.group = []*scope{}
		}
		return []*scope{rep}, nil
	}
	type grp struct {
		rep *scope
	}
	idx := map[string]*scope{}
	var order []*scope
	for _, sc := range scopes {
		var key []Value
		for _, g := range q.GroupBy {
			v, err := x.evalGroupExpr(g, sc, q)
			if err != nil {
				return nil, err
			}
			key = append(key, v)
		}
		k, err := groupKey(key)
		if err != nil {
			return nil, err
		}
		g := idx[k]
		if g == nil {
			g = &scope{parent: outer, rels: sc.rels, grouped: true}
			idx[k] = g
			order = append(order, g)
		}
		g.group = append(g.group, sc)
	}
	return order, nil
}

// evalGroupExpr evaluates a GROUP BY item: input columns first, then output aliases / ordinals.
func (x *execCtx) evalGroupExpr(g Expr, sc *scope, q *Select) (Value, error) {
	if l, ok := g.(*Lit); ok {
		if n, ok := l.V.(int64); ok && n >= 1 && int(n) <= len(q.Cols) {
			return x.eval(q.Cols[n-1].X, sc)
		}
	}
	v, err := x.eval(g, sc)
	if err != nil {
		if c, ok := g.(*ColRef); ok && len(c.Parts) == 1 {
			for _, sc2 := range q.Cols {
				if sc2.Alias == c.Parts[0] {
					return x.eval(sc2.X, sc)
				}
			}
		}
		return nil, err
	}
	return v, nil
}

// ---------- windows ----------

func collectWindows(e Expr, out *[]*FuncX) {
	walkExpr(e, func(n Expr) bool {
		if f, ok := n.(*FuncX); ok && f.Over != nil {
			*out = append(*out, f)
			return false
		}
		switch n.(type) {
		case *SubQ, *ExistsX:
			return false
		}
		return true
	})
}

func (x *execCtx) computeWindows(wins []*FuncX, rows []*scope) error {
	for _, f := range wins {
		parts := map[string][]*scope{}
		var order []string
		for _, sc := range rows {
			var key []Value
			for _, p := range f.Over.PartitionBy {
				v, err := x.eval(p, sc)
				if err != nil {
					return err
				}
				key = append(key, v)
			}
			k, err := groupKey(key)
			if err != nil {
				return err
			}
			if _, ok := parts[k]; !ok {
				order = append(order, k)
			}
			parts[k] = append(parts[k], sc)
		}
		for _, k := range order {
			p := parts[k]
			if len(f.Over.OrderBy) > 0 {
				keys := make([][]Value, len(p))
				for i, sc := range p {
					for _, it := range f.Over.OrderBy {
						v, err := x.eval(it.X, sc)
						if err != nil {
							return err
						}
						keys[i] = append(keys[i], v)
					}
				}
				idx := make([]int, len(p))
				for i := range idx {
					idx[i] = i
				}
				var ferr error
				sort.SliceStable(idx, func(a, b int) bool {
					for j, it := range f.Over.OrderBy {
						c, err := compareOrder(keys[idx[a]][j], keys[idx[b]][j], it)
						if err != nil {
							ferr = err
							return false
						}
						if c != 0 {
							return c < 0
						}
					}
					return false
				})
				if ferr != nil {
					return ferr
				}
				sorted := make([]*scope, len(p))
				for i, j := range idx {
					sorted[i] = p[j]
				}
				p = sorted
			}
			switch f.Name {
			case "row_number":
				for i, sc := range p {
					setWin(sc, f, int64(i+1))
				}
			case "first_value":
				if len(f.Args) != 1 {
					return pgErr("42883", "first_value takes one argument")
				}
				v, err := x.eval(f.Args[0], p[0])
				if err != nil {
					return err
				}
				for _, sc := range p {
					setWin(sc, f, v)
				}
			case "count":
				for _, sc := range p {
					setWin(sc, f, int64(len(p)))
				}
			default:
				return engineErr("window function %s not supported", f.Name)
			}
		}
	}
	return nil
}

func setWin(sc *scope, f *FuncX, v Value) {
	if sc.win == nil {
		sc.win = map[*FuncX]Value{}
	}
	sc.win[f] = v
}

// ---------- FOR UPDATE ----------

func (x *execCtx) selectForUpdate(q *Select, shapes []relShape, scopes []*scope, outer *scope) (*RowSet, error) {
	cols, exprs, err := x.expandSelectList(q.Cols, shapes)
	if err != nil {
		return nil, err
	}
	out := make([]outRow, 0, len(scopes))
	for _, sc := range scopes {
		out = append(out, outRow{sc: sc, src: sc.rels[0]})
	}
	project := func(sc *scope) ([]Value, error) {
		vals := make([]Value, len(exprs))
		for i, e := range exprs {
			if e.rel != nil {
				vals[i] = sc.rels[0].vals[e.colIdx]
				continue
			}
			v, err := x.eval(e.x, sc)
			if err != nil {
				return nil, err
			}
			vals[i] = v
		}
		return vals, nil
	}
	for i := range out {
		out[i].vals, err = project(out[i].sc)
		if err != nil {
			return nil, err
		}
	}
	if len(q.OrderBy) > 0 {
		if err := x.sortOut(out, q.OrderBy, cols, q.Cols); err != nil {
			return nil, err
		}
	}
	rs := &RowSet{Cols: cols}
	for _, r := range out {
		b := r.src
		if b.src == nil {
			return nil, engineErr("FOR UPDATE on a non-table relation")
		}
		latest, err := x.lockRow(b.tbl, b.src, func(cand *Row) (bool, error) {
			if q.Where == nil {
				return true, nil
			}
			nb := *b
			nb.vals, nb.src = cand.Vals, cand
			v, err := x.eval(q.Where, &scope{parent: outer, rels: []*relBinding{&nb}})
			if err != nil {
				return false, err
			}
			bb, ok := v.(bool)
			return ok && bb, nil
		}, true)
		if err != nil {
			return nil, err
		}
		if latest == nil {
			continue // row vanished or no longer qualifies
		}
		vals := r.vals
		if latest != b.src {
			nb := *b
			nb.vals, nb.src = latest.Vals, latest
			vals, err = project(&scope{parent: outer, rels: []*relBinding{&nb}})
			if err != nil {
				return nil, err
			}
		}
		for i, v := range vals {
			if u, ok := v.(Unk); ok {
				vals[i] = Text(u)
			}
		}
		rs.Rows = append(rs.Rows, vals)
	}
	return x.applyLimit(q, rs, outer)
}
