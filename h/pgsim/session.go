package pgsim

import (
	"strings"
)

func (x *execCtx) runSelectTop(q *Select) (*RowSet, error) {
	rs, err := x.runSelect(q, nil)
	if err != nil {
		return nil, err
	}
	if err := x.flushAfter(); err != nil {
		return nil, err
	}
	return rs, nil
}

// execStmt runs one already-parsed statement inside the current transaction.
func (x *execCtx) execStmt(st Stmt) (*RowSet, int64, error) {
	s := x.s
	switch d := st.(type) {
	case *Select:
		rs, err := x.runSelectTop(d)
		if err != nil {
			return nil, 0, err
		}
		return rs, int64(len(rs.Rows)), nil
	case *Insert:
		rs, n, err := x.runInsert(d, nil)
		if err != nil {
			return nil, 0, err
		}
		return rs, n, x.flushAfter()
	case *Update:
		rs, n, err := x.runUpdate(d, nil)
		if err != nil {
			return nil, 0, err
		}
		return rs, n, x.flushAfter()
	case *Delete:
		rs, n, err := x.runDelete(d, nil)
		if err != nil {
			return nil, 0, err
		}
		return rs, n, x.flushAfter()
	case *SetStmt:
		if d.Name == "search_path" {
			var path []string
			for _, p := range strings.Split(d.Value, ",") {
				p = strings.TrimSpace(p)
				if p != "" {
					path = append(path, p)
				}
			}
			if s.pathOverride != nil {
				// SET inside a function with a bound search_path only lasts for the call
				s.pathOverride = path
				return &RowSet{}, 0, nil
			}
			old := s.searchPath
			s.searchPath = path
			s.pushUndo(func() { s.searchPath = old })
		}
		return &RowSet{}, 0, nil
	case *NoopStmt:
		return &RowSet{}, 0, nil
	case *CallStmt:
		args, err := x.evalArgs(d.Call, nil)
		if err != nil {
			return nil, 0, err
		}
		fn, err := x.resolveFunc(d.Call, len(args))
		if err != nil {
			return nil, 0, err
		}
		if _, err := x.callFunction(fn, args, d.Call.ArgNames); err != nil {
			return nil, 0, err
		}
		return &RowSet{}, 0, nil
	case *DoStmt:
		if d.Lang != "plpgsql" {
			return nil, 0, engineErr("DO language %q", d.Lang)
		}
		b, err := parsePL(d.Body)
		if err != nil {
			return nil, 0, err
		}
		run := &plRun{s: s, fr: &plFrame{vars: map[string]*plVar{}, found: new(bool)}, isDo: true}
		// search_path changes inside DO persist (no bound path), as in Postgres
		if _, err := run.runBlock(b); err != nil {
			return nil, 0, err
		}
		return &RowSet{}, 0, nil
	case *TxStmt:
		return nil, 0, pgErr("0A000", "transaction control is not allowed here")
	}
	if err := x.execDDL(st); err != nil {
		return nil, 0, err
	}
	return &RowSet{}, 0, nil
}

func (db *DB) parseCached(sql string) ([]Stmt, []string, error) {
	if v, ok := db.stmtCache.Load(sql); ok {
		c := v.(*cachedParse)
		return c.stmts, c.heads, c.err
	}
	c := &cachedParse{}
	toks, err := lex(sql)
	if err != nil {
		c.err = err
	} else {
		for _, st := range splitStatements(toks) {
			head := ""
			if len(st) > 0 {
				head = st[0].s
			}
			p, err := parseStatement(sql, st)
			if err != nil {
				c.stmts = append(c.stmts, &parseFailure{err: err})
			} else {
				c.stmts = append(c.stmts, p)
			}
			c.heads = append(c.heads, head)
		}
	}
	if len(sql) < 4096 {
		db.stmtCache.Store(sql, c)
	}
	return c.stmts, c.heads, c.err
}

type cachedParse struct {
	stmts []Stmt
	heads []string
	err   error
}

type parseFailure struct{ err error }

func skippableInMigration(head string) bool {
	switch head {
	case "select", "insert", "update", "delete", "with", "do":
		return true
	}
	return false
}

// Exec runs a (possibly multi-statement) SQL string as the driver does.
// It returns the result of the last statement.
func (s *Session) Exec(sql string, params []Value) (*RowSet, int64, error) {
	db := s.db
	db.mu.Lock()
	defer db.mu.Unlock()
	return s.execLocked(sql, params)
}

func (s *Session) execLocked(sql string, params []Value) (*RowSet, int64, error) {
	db := s.db
	stmts, heads, err := db.parseCached(sql)
	if err != nil {
		if s.inTx() && s.explicit {
			s.failed = true
		}
		return nil, 0, err
	}
	db.Clock += db.ClockStep
	s.stmtTime = db.Clock
	implicit := false
	var last *RowSet
	var lastN int64
	fail := func(err error) (*RowSet, int64, error) {
		if implicit {
			s.rollback()
		} else if s.inTx() {
			s.failed = true
		}
		return nil, 0, err
	}
	for i, st := range stmts {
		if tx, ok := st.(*TxStmt); ok {
			if implicit {
				if err := s.commit(); err != nil {
					return nil, 0, err
				}
				implicit = false
			}
			if err := s.txControl(tx); err != nil {
				return fail(err)
			}
			last, lastN = &RowSet{}, 0
			continue
		}
		if s.inTx() && s.failed {
			return nil, 0, pgErr("25P02", "current transaction is aborted, commands ignored until end of transaction block")
		}
		if !s.inTx() {
			s.begin(false)
			implicit = true
		}
		if pf, ok := st.(*parseFailure); ok {
			if db.MigrationMode && skippableInMigration(heads[i]) {
				db.SkippedInMigration = append(db.SkippedInMigration, "parse: "+firstLine(pf.err.Error()))
				continue
			}
			return fail(pf.err)
		}
		mig := db.MigrationMode && skippableInMigration(heads[i])
		if mig {
			s.savepoint("__pgsim_mig")
		}
		s.cid++
		x := &execCtx{s: s, snap: s.snapshot(), cid: s.cid, params: params}
		rs, n, err := x.execStmt(st)
		db.Stats.Statements++
		if err != nil {
			if _, isEngine := err.(*EngineError); isEngine && mig {
				if rerr := s.rollbackTo("__pgsim_mig"); rerr == nil {
					_ = s.release("__pgsim_mig")
					db.SkippedInMigration = append(db.SkippedInMigration, heads[i]+": "+firstLine(err.Error()))
					continue
				}
			}
			return fail(err)
		}
		if mig {
			_ = s.release("__pgsim_mig")
		}
		last, lastN = rs, n
	}
	if implicit {
		if err := s.commit(); err != nil {
			return nil, 0, err
		}
	}
	if last == nil {
		last = &RowSet{}
	}
	return last, lastN, nil
}

func firstLine(s string) string {
	if i := strings.IndexByte(s, '\n'); i >= 0 {
		s = s[:i]
	}
	if len(s) > 300 {
		s = s[:300]
	}
	return s
}

// execSQLNested runs dynamic SQL (PL/pgSQL EXECUTE) inside the current transaction.
func (s *Session) execSQLNested(sql string) (*RowSet, int64, error) {
	stmts, _, err := s.db.parseCached(sql)
	if err != nil {
		return nil, 0, err
	}
	var last *RowSet
	var lastN int64
	for _, st := range stmts {
		if pf, ok := st.(*parseFailure); ok {
			return nil, 0, pf.err
		}
		s.cid++
		x := &execCtx{s: s, snap: s.snapshot(), cid: s.cid}
		rs, n, err := x.execStmt(st)
		if err != nil {
			return nil, 0, err
		}
		last, lastN = rs, n
	}
	return last, lastN, nil
}

func (s *Session) txControl(tx *TxStmt) error {
	switch tx.Kind {
	case "begin":
		if s.inTx() {
			return nil // WARNING: there is already a transaction in progress
		}
		s.begin(true)
		return nil
	case "commit":
		return s.commit()
	case "rollback":
		s.rollback()
		return nil
	case "savepoint":
		if !s.inTx() {
			return pgErr("25P01", "SAVEPOINT can only be used in transaction blocks")
		}
		if s.failed {
			return pgErr("25P02", "current transaction is aborted, commands ignored until end of transaction block")
		}
		s.savepoint(tx.Name)
		return nil
	case "release":
		if s.failed {
			return pgErr("25P02", "current transaction is aborted, commands ignored until end of transaction block")
		}
		return s.release(tx.Name)
	case "rollback_to":
		if !s.inTx() {
			return pgErr("25P01", "ROLLBACK TO SAVEPOINT can only be used in transaction blocks")
		}
		return s.rollbackTo(tx.Name)
	}
	return engineErr("tx control %q", tx.Kind)
}

// Begin/Commit/Rollback for the driver.
func (s *Session) BeginTx() error {
	s.db.mu.Lock()
	defer s.db.mu.Unlock()
	if s.inTx() {
		return pgErr("25001", "there is already a transaction in progress")
	}
	s.db.Clock += s.db.ClockStep
	s.begin(true)
	return nil
}

func (s *Session) CommitTx() error {
	s.db.mu.Lock()
	defer s.db.mu.Unlock()
	wasFailed := s.failed
	err := s.commit()
	if err == nil && wasFailed {
		return pgErr("25P02", "commit unexpectedly resulted in rollback")
	}
	return err
}

func (s *Session) RollbackTx() {
	s.db.mu.Lock()
	defer s.db.mu.Unlock()
	s.rollback()
}

// MarkFailed puts an open explicit transaction in the aborted state (injected statement failure).
func (s *Session) MarkFailed() {
	s.db.mu.Lock()
	defer s.db.mu.Unlock()
	if s.top != 0 {
		s.failed = true
	}
}

// InTx reports whether a transaction is open (for the harness).
func (s *Session) InTx() bool { return s.top != 0 }

// TxOpen is InTx read under the engine lock: for harness goroutines other than the one
// that drives the session (e.g. waiting for a rollback issued by database/sql itself).
func (s *Session) TxOpen() bool {
	s.db.mu.Lock()
	defer s.db.mu.Unlock()
	return s.top != 0
}
