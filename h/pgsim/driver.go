package pgsim

import (
	"context"
	"database/sql"
	"database/sql/driver"
	"errors"
	"fmt"
	"io"
	"math/big"
	"os"
	"time"

	"github.com/jackc/pgx/v5/pgconn"
)

// CallHook is invoked (without the engine lock) at the start of every driver call.
// It may block (scheduling) and may return an error (fault injection); a non-nil
// error is returned to the caller as the result of the call. For op=="commit" a
// returned error means the COMMIT failed and the transaction was rolled back.
type CallHook func(ctx context.Context, s *Session, op string, sql string) error

type Connector struct {
	DB   *DB
	Hook CallHook
}

func NewConnector(db *DB) *Connector { return &Connector{DB: db} }

func (c *Connector) Connect(ctx context.Context) (driver.Conn, error) {
	s := c.DB.NewSession()
	return &conn{c: c, s: s}, nil
}

func (c *Connector) Driver() driver.Driver { return drv{} }

type drv struct{}

func (drv) Open(name string) (driver.Conn, error) {
	return nil, errors.New("pgsim: use sql.OpenDB(pgsim.NewConnector(db))")
}

// Open returns a *sql.DB over db.
func Open(db *DB, hook CallHook) *sql.DB {
	return sql.OpenDB(&Connector{DB: db, Hook: hook})
}

type conn struct {
	c   *Connector
	s   *Session
	bad bool
}

// SessionOf exposes the pgsim session behind a database/sql raw connection.
func SessionOf(driverConn any) *Session {
	if c, ok := driverConn.(*conn); ok {
		return c.s
	}
	return nil
}

func convertErr(err error) error {
	if err == nil {
		return nil
	}
	var pe *PgError
	if errors.As(err, &pe) {
		return &pgconn.PgError{Severity: "ERROR", Code: pe.Code, Message: pe.Message, ConstraintName: pe.Constraint, TableName: pe.Table}
	}
	return err
}

func (c *conn) hook(ctx context.Context, op, sql string) error {
	if c.bad {
		return driver.ErrBadConn
	}
	if err := ctx.Err(); err != nil {
		return err
	}
	c.s.Ctx = ctx
	if c.c.Hook != nil {
		if err := c.c.Hook(ctx, c.s, op, sql); err != nil {
			var bc *BadConnFault
			if errors.As(err, &bc) {
				c.bad = true
				// the server side sees the connection drop: the transaction is rolled back
				c.s.RollbackTx()
			}
			var sf *StmtFault
			if errors.As(err, &sf) {
				if sf.Late && (op == "exec" || op == "query") {
					return &lateFault{f: sf}
				}
				// the statement failed on the server: an open transaction is now aborted
				c.s.MarkFailed()
				return &pgconn.PgError{Severity: "ERROR", Code: sf.Code, Message: "injected: " + sf.Msg}
			}
			return err
		}
	}
	return nil
}

// BadConnFault is returned by a CallHook to simulate a dropped connection.
type BadConnFault struct{ Msg string }

func (e *BadConnFault) Error() string { return "injected: connection failure: " + e.Msg }

// StmtFault is returned by a CallHook to make the statement fail with an SQL error
// (the transaction, if any, becomes aborted as after any failed statement).
//
// Late (exec/query inside a transaction only): the server reports the error AFTER the
// statement did its work, the way a deadlock is reported to an INSERT that formed its
// row (nextval already evaluated) and then waited on a unique index entry of an
// in-progress transaction. The statement is executed, then the transaction is marked
// aborted and the error returned: everything the statement wrote is undone by the
// ROLLBACK / ROLLBACK TO SAVEPOINT that must follow, except what Postgres never rolls
// back (sequence advances: 9.17 "nextval operations are never rolled back").
type StmtFault struct {
	Code, Msg string
	Late      bool
}

// lateFault carries a Late StmtFault from conn.hook to ExecContext / QueryContext.
type lateFault struct{ f *StmtFault }

func (e *lateFault) Error() string { return "injected: late statement failure: " + e.f.Msg }

// late splits the result of conn.hook: a Late statement fault is handed back to the
// caller (which runs the statement first), anything else is a plain error.
func (c *conn) late(err error) (*StmtFault, error) {
	var lf *lateFault
	if errors.As(err, &lf) {
		if !c.s.InTx() {
			return nil, engineErr("late statement fault outside a transaction is not supported")
		}
		return lf.f, nil
	}
	return nil, err
}

// failLate ends a statement that carried a Late fault: its own error wins; otherwise the
// open transaction becomes aborted and the injected error is the statement's result.
func (c *conn) failLate(f *StmtFault, err error) error {
	if err != nil {
		return err
	}
	c.s.MarkFailed()
	return &pgconn.PgError{Severity: "ERROR", Code: f.Code, Message: "injected: " + f.Msg}
}

func (e *StmtFault) Error() string { return "injected: statement failure: " + e.Msg }

func toValues(args []driver.NamedValue) ([]Value, error) {
	out := make([]Value, len(args))
	for i, a := range args {
		switch v := a.Value.(type) {
		case nil:
			out[i] = nil
		case int64:
			out[i] = v
		case bool:
			out[i] = v
		case string:
			out[i] = Unk(v)
		case []byte:
			out[i] = Bytes(v)
		case time.Time:
			out[i] = Timestamp(v.UTC().UnixMicro())
		case float64:
			if v == float64(int64(v)) {
				out[i] = int64(v)
			} else {
				return nil, engineErr("float parameter %v not supported", v)
			}
		default:
			return nil, engineErr("parameter type %T not supported", v)
		}
	}
	return out, nil
}

func (c *conn) ExecContext(ctx context.Context, query string, args []driver.NamedValue) (driver.Result, error) {
	late, err := c.late(c.hook(ctx, "exec", query))
	if err != nil {
		return nil, err
	}
	params, err := toValues(args)
	if err != nil {
		return nil, err
	}
	rs, n, err := c.s.Exec(query, params)
	if trace {
		traceOut(c.s.ID, query, rs, err)
	}
	if late != nil {
		err = c.failLate(late, convertErr(err))
		if trace {
			traceOut(c.s.ID, "-- late fault on the statement above", nil, err)
		}
		return nil, err
	}
	if err != nil {
		return nil, convertErr(err)
	}
	return result{n}, nil
}

func (c *conn) QueryContext(ctx context.Context, query string, args []driver.NamedValue) (driver.Rows, error) {
	late, err := c.late(c.hook(ctx, "query", query))
	if err != nil {
		return nil, err
	}
	params, err := toValues(args)
	if err != nil {
		return nil, err
	}
	rs, _, err := c.s.Exec(query, params)
	if trace {
		traceOut(c.s.ID, query, rs, err)
	}
	if late != nil {
		err = c.failLate(late, convertErr(err))
		if trace {
			traceOut(c.s.ID, "-- late fault on the statement above", nil, err)
		}
		return nil, err
	}
	if err != nil {
		return nil, convertErr(err)
	}
	return &rows{rs: rs}, nil
}

func (c *conn) Prepare(query string) (driver.Stmt, error) { return &stmt{c: c, q: query}, nil }
func (c *conn) PrepareContext(ctx context.Context, query string) (driver.Stmt, error) {
	return &stmt{c: c, q: query}, nil
}

func (c *conn) Close() error {
	c.s.Close()
	return nil
}

func (c *conn) Begin() (driver.Tx, error) { return c.BeginTx(context.Background(), driver.TxOptions{}) }

func (c *conn) BeginTx(ctx context.Context, opts driver.TxOptions) (driver.Tx, error) {
	if err := c.hook(ctx, "begin", ""); err != nil {
		return nil, err
	}
	if opts.Isolation != driver.IsolationLevel(sql.LevelDefault) && opts.Isolation != driver.IsolationLevel(sql.LevelReadCommitted) {
		return nil, engineErr("isolation level %d not supported (READ COMMITTED only)", opts.Isolation)
	}
	if opts.ReadOnly {
		return nil, engineErr("read-only transactions not supported")
	}
	if err := c.s.BeginTx(); err != nil {
		return nil, convertErr(err)
	}
	return &tx{c: c, ctx: ctx}, nil
}

func (c *conn) Ping(ctx context.Context) error {
	if c.bad {
		return driver.ErrBadConn
	}
	return nil
}

func (c *conn) ResetSession(ctx context.Context) error {
	if c.bad {
		return driver.ErrBadConn
	}
	return nil
}

func (c *conn) IsValid() bool { return !c.bad }

type tx struct {
	c   *conn
	ctx context.Context
}

func (t *tx) Commit() error {
	// database/sql gives no context to Commit; use the one BeginTx received, but a
	// cancelled context must not prevent the hook from seeing the commit.
	ctx := context.WithoutCancel(t.ctx)
	if t.c.bad {
		return driver.ErrBadConn
	}
	t.c.s.Ctx = ctx
	if t.c.c.Hook != nil {
		if err := t.c.c.Hook(ctx, t.c.s, "commit", ""); err != nil {
			t.c.s.RollbackTx()
			var bc *BadConnFault
			if errors.As(err, &bc) {
				t.c.bad = true
			}
			return err
		}
	}
	return convertErr(t.c.s.CommitTx())
}

func (t *tx) Rollback() error {
	ctx := context.WithoutCancel(t.ctx)
	if t.c.bad {
		return nil
	}
	t.c.s.Ctx = ctx
	if t.c.c.Hook != nil {
		// rollback cannot fail in a way that matters: the hook is only a scheduling point
		_ = t.c.c.Hook(ctx, t.c.s, "rollback", "")
	}
	t.c.s.RollbackTx()
	return nil
}

type stmt struct {
	c *conn
	q string
}

func (s *stmt) Close() error  { return nil }
func (s *stmt) NumInput() int { return -1 }
func (s *stmt) Exec(args []driver.Value) (driver.Result, error) {
	return s.c.ExecContext(context.Background(), s.q, named(args))
}
func (s *stmt) Query(args []driver.Value) (driver.Rows, error) {
	return s.c.QueryContext(context.Background(), s.q, named(args))
}
func (s *stmt) ExecContext(ctx context.Context, args []driver.NamedValue) (driver.Result, error) {
	return s.c.ExecContext(ctx, s.q, args)
}
func (s *stmt) QueryContext(ctx context.Context, args []driver.NamedValue) (driver.Rows, error) {
	return s.c.QueryContext(ctx, s.q, args)
}

func named(args []driver.Value) []driver.NamedValue {
	out := make([]driver.NamedValue, len(args))
	for i, a := range args {
		out[i] = driver.NamedValue{Ordinal: i + 1, Value: a}
	}
	return out
}

type result struct{ n int64 }

func (r result) LastInsertId() (int64, error) { return 0, errors.New("pgsim: LastInsertId not supported") }
func (r result) RowsAffected() (int64, error) { return r.n, nil }

type rows struct {
	rs *RowSet
	i  int
}

func (r *rows) Columns() []string {
	out := make([]string, len(r.rs.Cols))
	for i, c := range r.rs.Cols {
		if len(c) > 0 && c[0] == 0 {
			c = c[1:]
		}
		out[i] = c
	}
	return out
}
func (r *rows) Close() error { return nil }
func (r *rows) Next(dest []driver.Value) error {
	if r.i >= len(r.rs.Rows) {
		return io.EOF
	}
	row := r.rs.Rows[r.i]
	r.i++
	for i := range dest {
		if i >= len(row) {
			dest[i] = nil
			continue
		}
		v, err := toDriver(row[i])
		if err != nil {
			return err
		}
		dest[i] = v
	}
	return nil
}

func toDriver(v Value) (driver.Value, error) {
	switch x := v.(type) {
	case nil:
		return nil, nil
	case bool:
		return x, nil
	case int64:
		return x, nil
	case Numeric:
		return x.I.String(), nil
	case Text:
		return string(x), nil
	case Unk:
		return string(x), nil
	case Bytes:
		return []byte(x), nil
	case Timestamp:
		return time.UnixMicro(int64(x)).UTC(), nil
	case *JSON:
		return []byte(x.String()), nil
	case *Array, *Record:
		s, err := textOf(x)
		if err != nil {
			return nil, err
		}
		return s, nil
	}
	return nil, fmt.Errorf("pgsim: cannot convert %T to driver value", v)
}

var _ = big.NewInt

var trace = os.Getenv("PGSIM_TRACE") != ""

func traceOut(sess int, q string, rs *RowSet, err error) {
	if len(q) > 3000 {
		q = q[:3000] + "…"
	}
	fmt.Fprintf(os.Stderr, "[pgsim s%d] %s\n", sess, q)
	if err != nil {
		fmt.Fprintf(os.Stderr, "   => ERROR %v\n", err)
		return
	}
	if rs != nil {
		fmt.Fprintf(os.Stderr, "   => %d rows %v\n", len(rs.Rows), rs.Cols)
		for i, r := range rs.Rows {
			if i >= 5 {
				break
			}
			var parts []string
			for _, v := range r {
				t, _ := textOf(v)
				if v == nil {
					t = "NULL"
				}
				parts = append(parts, t)
			}
			fmt.Fprintf(os.Stderr, "      %v\n", parts)
		}
	}
}
