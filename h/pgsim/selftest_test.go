package pgsim

import (
	"fmt"
	"os"
	"strings"
	"testing"
	"time"
)

// TestSelfTest runs the documentation-derived self-test of the model (see selftest.go).
func TestSelfTest(t *testing.T) {
	t0 := time.Now()
	rs := SelfTest()
	for _, r := range rs {
		switch {
		case r.Skipped:
			t.Logf("SKIP %s: %s", r.Name, r.Detail)
		case !r.Passed:
			t.Errorf("FAIL %s [%s]\n   rule: %s\n   %s", r.Name, r.Basis, r.Rule, r.Detail)
		}
	}
	n, f, s := SelfTestSummary(rs)
	t.Logf("SELFTEST cases=%d failed=%d skipped=%d elapsed=%s", n, f, s, time.Since(t0).Round(time.Millisecond))
}

// TestSelfTestTable writes the case table (markdown) to $SELFTEST_TABLE when set; it is
// how the table of the report is produced.
func TestSelfTestTable(t *testing.T) {
	path := os.Getenv("SELFTEST_TABLE")
	if path == "" {
		t.Skip("SELFTEST_TABLE not set")
	}
	var sb strings.Builder
	sb.WriteString("| # | case | basis | result | ms | documentation rule |\n|---|---|---|---|---|---|\n")
	for i, r := range SelfTest() {
		res := "pass"
		switch {
		case r.Skipped:
			res = "SKIP"
		case !r.Passed:
			res = "FAIL"
		}
		rule := strings.ReplaceAll(r.Rule, "|", "\\|")
		fmt.Fprintf(&sb, "| %d | %s | %s | %s | %.1f | %s |\n", i+1, r.Name, r.Basis, res, float64(r.Elapsed.Microseconds())/1000, rule)
	}
	if err := os.WriteFile(path, []byte(sb.String()), 0o644); err != nil {
		t.Fatal(err)
	}
}
