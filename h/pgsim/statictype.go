package pgsim

import "strings"

// staticType returns the declared SQL type of an expression when it can be read off
// the catalog or the PL/pgSQL frame without evaluating it ("" otherwise). It exists
// for the few places where Postgres' static typing of a NULL matters (COALESCE).
func (x *execCtx) staticType(e Expr, sc *scope) string {
	switch v := e.(type) {
	case *parenX:
		return x.staticType(v.X, sc)
	case *CastX:
		return v.Type
	case *FieldX:
		return x.fieldType(x.staticType(v.X, sc), v.Field)
	case *ColRef:
		switch len(v.Parts) {
		case 1:
			for s := sc; s != nil; s = s.parent {
				for _, b := range s.rels {
					if b.tbl == nil {
						continue
					}
					if i := b.tbl.colIndex(v.Parts[0]); i >= 0 {
						return b.tbl.Cols[i].Type
					}
				}
			}
			if pv := x.pl.find(v.Parts[0]); pv != nil {
				return pv.typ
			}
		case 2:
			for s := sc; s != nil; s = s.parent {
				for _, b := range s.rels {
					if b.name == v.Parts[0] && b.tbl != nil {
						if i := b.tbl.colIndex(v.Parts[1]); i >= 0 {
							return b.tbl.Cols[i].Type
						}
					}
				}
			}
			if pv := x.pl.find(v.Parts[0]); pv != nil {
				return x.fieldType(pv.typ, v.Parts[1])
			}
		}
	}
	return ""
}

func (x *execCtx) fieldType(composite, field string) string {
	if composite == "" || strings.EqualFold(composite, "record") {
		return ""
	}
	if td := x.s.findType(composite); td != nil {
		for _, f := range td.Fields {
			if f.Name == field {
				return f.Type
			}
		}
		return ""
	}
	if t := x.s.findRowType(composite); t != nil {
		if i := t.colIndex(field); i >= 0 {
			return t.Cols[i].Type
		}
	}
	return ""
}
