package world

import "github.com/formancehq/go-libs/v5/pkg/storage/bun/paginate"

func paginateAsc() paginate.Order { return paginate.Order(paginate.OrderAsc) }
