package world

import (
	"context"

	"github.com/formancehq/go-libs/v5/pkg/types/metadata"

	ledger "github.com/formancehq/ledger/internal"
)

// listenerProxy forwards to w.Listener when one is set.
type listenerProxy struct{ w *World }

func (p listenerProxy) CommittedTransactions(ctx context.Context, l string, res ledger.Transaction, am ledger.AccountMetadata) {
	if p.w.Listener != nil {
		p.w.Listener.CommittedTransactions(ctx, l, res, am)
	}
}
func (p listenerProxy) SavedMetadata(ctx context.Context, l string, targetType, id string, m metadata.Metadata) {
	if p.w.Listener != nil {
		p.w.Listener.SavedMetadata(ctx, l, targetType, id, m)
	}
}
func (p listenerProxy) RevertedTransaction(ctx context.Context, l string, reverted, revert ledger.Transaction) {
	if p.w.Listener != nil {
		p.w.Listener.RevertedTransaction(ctx, l, reverted, revert)
	}
}
func (p listenerProxy) DeletedMetadata(ctx context.Context, l string, targetType string, targetID any, key string) {
	if p.w.Listener != nil {
		p.w.Listener.DeletedMetadata(ctx, l, targetType, targetID, key)
	}
}
func (p listenerProxy) InsertedSchema(ctx context.Context, l string, data ledger.Schema) {
	if p.w.Listener != nil {
		p.w.Listener.InsertedSchema(ctx, l, data)
	}
}
