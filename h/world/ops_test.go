package world

import (
	"context"
	"encoding/json"
	"math/big"
	"testing"

	"github.com/formancehq/go-libs/v5/pkg/query"
	"github.com/formancehq/go-libs/v5/pkg/types/metadata"
	"github.com/formancehq/go-libs/v5/pkg/types/pointer"
	libtime "github.com/formancehq/go-libs/v5/pkg/types/time"

	ledger "github.com/formancehq/ledger/internal"
	ledgercontroller "github.com/formancehq/ledger/internal/controller/ledger"
	"github.com/formancehq/ledger/internal/storage/common"
)

func j(v any) string { b, _ := json.Marshal(v); return string(b) }

func TestOps(t *testing.T) {
	ctx := context.Background()
	w, err := NewSystem(ctx)
	if err != nil {
		t.Fatal(err)
	}
	must := func(err error) {
		t.Helper()
		if err != nil {
			t.Fatal(err)
		}
	}
	must(w.CreateLedger(ctx, "l1", ledger.Configuration{}))
	ctrl, err := w.Sys.GetLedgerController(ctx, "l1")
	must(err)
	post := func(src, dst, asset string, amt int64, ts *libtime.Time, ref string) *ledger.CreatedTransaction {
		t.Helper()
		td := ledger.TransactionData{Postings: ledger.Postings{ledger.NewPosting(src, dst, asset, big.NewInt(amt))}, Reference: ref, Metadata: metadata.Metadata{"k": "v"}}
		if ts != nil {
			td.Timestamp = *ts
		}
		_, res, _, err := ctrl.CreateTransaction(ctx, ledgercontroller.Parameters[ledgercontroller.CreateTransaction]{
			Input: ledgercontroller.CreateTransaction{RunScript: ledgercontroller.TxToScriptData(td, false)},
		})
		must(err)
		return res
	}
	t1 := post("world", "a:b", "USD/2", 100, nil, "r1")
	t2 := post("a:b", "c", "USD/2", 30, nil, "")
	back := t1.Transaction.Timestamp.Add(-3600e9)
	t3 := post("world", "a:b", "USD/2", 7, &back, "")
	t.Log("tx ids", *t1.Transaction.ID, *t2.Transaction.ID, *t3.Transaction.ID)

	// script with overdraft + metadata
	_, _, _, err = ctrl.CreateTransaction(ctx, ledgercontroller.Parameters[ledgercontroller.CreateTransaction]{
		IdempotencyKey: "ik1",
		Input: ledgercontroller.CreateTransaction{RunScript: ledgercontroller.RunScript{Script: ledgercontroller.Script{Plain: `
send [EUR/2 10] (
  source = @x allowing overdraft up to [EUR/2 10]
  destination = @y
)
set_tx_meta("foo", "bar")
set_account_meta(@y, "am", "1")
`}}},
	})
	must(err)
	// insufficient funds
	_, _, _, err = ctrl.CreateTransaction(ctx, ledgercontroller.Parameters[ledgercontroller.CreateTransaction]{
		Input: ledgercontroller.CreateTransaction{RunScript: ledgercontroller.TxToScriptData(ledger.TransactionData{Postings: ledger.Postings{ledger.NewPosting("c", "d", "USD/2", big.NewInt(1000))}}, false)},
	})
	t.Log("expected insufficient funds:", err)
	if err == nil {
		t.Fatal("expected error")
	}
	// reference conflict
	_, _, _, err = ctrl.CreateTransaction(ctx, ledgercontroller.Parameters[ledgercontroller.CreateTransaction]{
		Input: ledgercontroller.CreateTransaction{RunScript: ledgercontroller.TxToScriptData(ledger.TransactionData{Reference: "r1", Postings: ledger.Postings{ledger.NewPosting("world", "d", "USD/2", big.NewInt(1))}}, false)},
	})
	t.Log("expected reference conflict:", err)
	if err == nil {
		t.Fatal("expected error")
	}
	// idempotency hit
	_, _, hit, err := ctrl.CreateTransaction(ctx, ledgercontroller.Parameters[ledgercontroller.CreateTransaction]{
		IdempotencyKey: "ik1",
		Input: ledgercontroller.CreateTransaction{RunScript: ledgercontroller.RunScript{Script: ledgercontroller.Script{Plain: `
send [EUR/2 10] (
  source = @x allowing overdraft up to [EUR/2 10]
  destination = @y
)
set_tx_meta("foo", "bar")
set_account_meta(@y, "am", "1")
`}}},
	})
	must(err)
	t.Log("idempotency hit:", hit)

	// metadata
	_, _, err = ctrl.SaveTransactionMetadata(ctx, ledgercontroller.Parameters[ledgercontroller.SaveTransactionMetadata]{Input: ledgercontroller.SaveTransactionMetadata{TransactionID: 1, Metadata: metadata.Metadata{"m1": "x"}}})
	must(err)
	_, _, err = ctrl.SaveAccountMetadata(ctx, ledgercontroller.Parameters[ledgercontroller.SaveAccountMetadata]{Input: ledgercontroller.SaveAccountMetadata{Address: "a:b", Metadata: metadata.Metadata{"role": "r"}}})
	must(err)
	_, _, err = ctrl.SaveAccountMetadata(ctx, ledgercontroller.Parameters[ledgercontroller.SaveAccountMetadata]{Input: ledgercontroller.SaveAccountMetadata{Address: "only:meta", Metadata: metadata.Metadata{"role": "q"}}})
	must(err)
	_, _, err = ctrl.DeleteTransactionMetadata(ctx, ledgercontroller.Parameters[ledgercontroller.DeleteTransactionMetadata]{Input: ledgercontroller.DeleteTransactionMetadata{TransactionID: 1, Key: "m1"}})
	must(err)
	_, _, err = ctrl.DeleteAccountMetadata(ctx, ledgercontroller.Parameters[ledgercontroller.DeleteAccountMetadata]{Input: ledgercontroller.DeleteAccountMetadata{Address: "a:b", Key: "role"}})
	must(err)
	// revert
	_, rv, _, err := ctrl.RevertTransaction(ctx, ledgercontroller.Parameters[ledgercontroller.RevertTransaction]{Input: ledgercontroller.RevertTransaction{TransactionID: 2}})
	must(err)
	t.Log("revert:", j(rv.RevertTransaction.Postings))
	_, _, _, err = ctrl.RevertTransaction(ctx, ledgercontroller.Parameters[ledgercontroller.RevertTransaction]{Input: ledgercontroller.RevertTransaction{TransactionID: 2}})
	t.Log("expected already reverted:", err)
	if err == nil {
		t.Fatal("expected error")
	}
	// dry run
	_, _, _, err = ctrl.CreateTransaction(ctx, ledgercontroller.Parameters[ledgercontroller.CreateTransaction]{
		DryRun: true,
		Input:  ledgercontroller.CreateTransaction{RunScript: ledgercontroller.TxToScriptData(ledger.TransactionData{Postings: ledger.Postings{ledger.NewPosting("world", "d", "USD/2", big.NewInt(1))}}, false)},
	})
	must(err)

	// reads
	pit := t1.Transaction.Timestamp
	txs, err := ctrl.ListTransactions(ctx, common.InitialPaginatedQuery[any]{PageSize: 10, Options: common.ResourceQuery[any]{Expand: []string{"volumes", "effectiveVolumes"}}})
	must(err)
	t.Log("txs:", j(txs.Data))
	txs, err = ctrl.ListTransactions(ctx, common.InitialPaginatedQuery[any]{PageSize: 2, Options: common.ResourceQuery[any]{PIT: &pit, Builder: query.Or(query.Match("account", "a:"), query.Match("metadata[k]", "v"))}})
	must(err)
	t.Log("txs pit:", j(txs))
	tx, err := ctrl.GetTransaction(ctx, common.ResourceQuery[any]{Builder: query.Match("id", 1), Expand: []string{"volumes", "effectiveVolumes"}})
	must(err)
	t.Log("tx1:", j(tx))
	n, err := ctrl.CountTransactions(ctx, common.ResourceQuery[any]{Builder: query.Match("reverted", true)})
	must(err)
	t.Log("count reverted:", n)
	accs, err := ctrl.ListAccounts(ctx, common.InitialPaginatedQuery[any]{PageSize: 10, Options: common.ResourceQuery[any]{Expand: []string{"volumes", "effectiveVolumes"}}})
	must(err)
	t.Log("accounts:", j(accs.Data))
	accs, err = ctrl.ListAccounts(ctx, common.InitialPaginatedQuery[any]{PageSize: 10, Options: common.ResourceQuery[any]{PIT: &pit, Expand: []string{"volumes", "effectiveVolumes"}, Builder: query.And(query.Match("address", "a:..."), query.Gte("balance[USD/2]", 0))}})
	must(err)
	t.Log("accounts pit:", j(accs.Data))
	acc, err := ctrl.GetAccount(ctx, common.ResourceQuery[any]{Builder: query.Match("address", "a:b"), Expand: []string{"volumes"}})
	must(err)
	t.Log("account:", j(acc))
	for _, opt := range []ledger.GetVolumesOptions{{}, {GroupLvl: 1}, {UseInsertionDate: true}} {
		for _, p := range []*libtime.Time{nil, &pit} {
			vols, err := ctrl.GetVolumesWithBalances(ctx, common.InitialPaginatedQuery[ledger.GetVolumesOptions]{PageSize: 10, Options: common.ResourceQuery[ledger.GetVolumesOptions]{PIT: p, Opts: opt, Builder: query.Not(query.Match("account", "zzz"))}})
			must(err)
			t.Log("volumes:", j(opt), p != nil, j(vols.Data))
		}
	}
	for _, ins := range []bool{false, true} {
		for _, p := range []*libtime.Time{nil, &pit} {
			ab, err := ctrl.GetAggregatedBalances(ctx, common.ResourceQuery[ledger.GetAggregatedVolumesOptions]{PIT: p, Opts: ledger.GetAggregatedVolumesOptions{UseInsertionDate: ins}, Builder: query.Match("address", "a:")})
			must(err)
			t.Log("aggregated:", ins, p != nil, j(ab))
		}
	}
	logs, err := ctrl.ListLogs(ctx, common.InitialPaginatedQuery[any]{PageSize: 3, Order: pointer.For(paginateAsc())})
	must(err)
	t.Log("logs:", len(logs.Data), logs.HasMore, logs.Next)
	st, err := ctrl.GetStats(ctx)
	must(err)
	t.Log("stats:", j(st))
}
