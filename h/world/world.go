// Package world builds the real ledger stack (storage driver, system controller, API)
// on top of a pgsim database.
package world

import (
	"context"
	"database/sql"
	"fmt"
	"sync"

	"github.com/uptrace/bun"
	"github.com/uptrace/bun/dialect/pgdialect"
	"go.opentelemetry.io/otel/trace"
	nooptracer "go.opentelemetry.io/otel/trace/noop"

	ledger "github.com/formancehq/ledger/internal"
	ledgercontroller "github.com/formancehq/ledger/internal/controller/ledger"
	systemcontroller "github.com/formancehq/ledger/internal/controller/system"
	"github.com/formancehq/ledger/internal/storage/bucket"
	"github.com/formancehq/ledger/internal/storage/driver"
	ledgerstore "github.com/formancehq/ledger/internal/storage/ledger"
	systemstore "github.com/formancehq/ledger/internal/storage/system"
	"github.com/formancehq/ledger/verifh/pgsim"
)

// World is one pgsim database plus the Go object graph of the ledger above it.
type World struct {
	PG     *pgsim.DB
	SQL    *sql.DB
	Bun    *bun.DB
	Driver *driver.Driver
	Sys    *systemcontroller.DefaultController
	// MachineParser / InterpreterParser are the parsers handed to Sys (cached or not, see Options).
	MachineParser, InterpreterParser ledgercontroller.NumscriptParser
	Hook                             pgsim.CallHook
	// Listener receives the events of every ledger controller created through Sys.
	Listener ledgercontroller.Listener
	// Span, when set, is called at the start of every tracing span of the ledger store
	// (BeginTX, Commit, Rollback, InsertLog, …), on the goroutine of the request and
	// before the driver calls of that span: a deterministic synchronisation point BETWEEN
	// two driver calls (e.g. name=="Commit": the last statement of the transaction has
	// returned, the sql COMMIT has not been issued yet). The tracer is otherwise the
	// no-op tracer the store uses by default.
	Span func(ctx context.Context, name string)

	hookMu sync.Mutex
}

// spanTracer is the OpenTelemetry no-op tracer plus the World.Span callback.
type spanTracer struct {
	nooptracer.Tracer
	w *World
}

func (t spanTracer) Start(ctx context.Context, name string, opts ...trace.SpanStartOption) (context.Context, trace.Span) {
	if h := t.w.Span; h != nil {
		h(ctx, name)
	}
	return t.Tracer.Start(ctx, name, opts...)
}

func registerModels(db *bun.DB) {
	db.Dialect().Tables().Register(
		&ledger.Transaction{},
		&ledger.Log{},
		&ledger.Account{},
		&ledger.Move{},
		&ledger.Ledger{},
	)
}

// Options of AttachWith.
type Options struct {
	// NumscriptCacheMaxCount, when not 0, wraps the machine parser and the interpreter
	// parser in the LFU cache of compiled scripts (ledgercontroller.NewCachedNumscriptParser)
	// exactly as system.NewFXModule does with ModuleConfiguration.NSCacheConfiguration
	// (`serve --numscript-cache-max-count`, default 1024). 0 = no cache (each Parse compiles).
	NumscriptCacheMaxCount uint
}

// Attach builds the Go stack over an existing pgsim database (used after Clone: "restart").
func Attach(pg *pgsim.DB) *World { return AttachWith(pg, Options{}) }

// AttachWith is Attach with the given options.
func AttachWith(pg *pgsim.DB, o Options) *World {
	w := &World{PG: pg}
	w.SQL = sql.OpenDB(&pgsim.Connector{DB: pg, Hook: func(ctx context.Context, s *pgsim.Session, op, q string) error {
		if h := w.Hook; h != nil {
			return h(ctx, s, op, q)
		}
		return nil
	}})
	w.Bun = bun.NewDB(w.SQL, pgdialect.New(), bun.WithDiscardUnknownColumns())
	registerModels(w.Bun)
	w.Driver = driver.New(
		w.Bun,
		ledgerstore.NewFactory(w.Bun, ledgerstore.WithTracer(spanTracer{w: w})),
		bucket.NewDefaultFactory(),
		systemstore.NewStoreFactory(),
	)
	// the parsers, as internal/controller/system/module.go builds them (NumscriptInterpreter
	// false: the default parser is the machine parser)
	var (
		defaultParser     ledgercontroller.NumscriptParser = ledgercontroller.NewDefaultNumscriptParser()
		machineParser     ledgercontroller.NumscriptParser = ledgercontroller.NewDefaultNumscriptParser()
		interpreterParser ledgercontroller.NumscriptParser = ledgercontroller.NewInterpreterNumscriptParser(nil)
	)
	if o.NumscriptCacheMaxCount != 0 {
		machineParser = ledgercontroller.NewCachedNumscriptParser(machineParser, ledgercontroller.CacheConfiguration{
			MaxCount: o.NumscriptCacheMaxCount,
		})
		interpreterParser = ledgercontroller.NewCachedNumscriptParser(interpreterParser, ledgercontroller.CacheConfiguration{
			MaxCount: o.NumscriptCacheMaxCount,
		})
		defaultParser = machineParser
	}
	w.MachineParser, w.InterpreterParser = machineParser, interpreterParser
	w.Sys = systemcontroller.NewDefaultController(
		systemcontroller.NewControllerStorageDriverAdapter(w.Driver, systemstore.New(w.Bun)),
		listenerProxy{w},
		nil,
		systemcontroller.WithEnableFeatures(true),
		systemcontroller.WithParser(defaultParser, machineParser, interpreterParser),
	)
	return w
}

// NewSystem creates a fresh database with the _system schema migrated by the real
// system-store migrations (run inside one transaction: the non-transactional path of
// go-libs' Migrator opens a pgx LISTEN connection, which only exists on a real server).
func NewSystem(ctx context.Context) (*World, error) {
	pg := pgsim.NewDB()
	pg.MigrationMode = true
	w := Attach(pg)
	err := w.Bun.RunInTx(ctx, nil, func(ctx context.Context, tx bun.Tx) error {
		return systemstore.GetMigrator(tx).Up(ctx)
	})
	pg.MigrationMode = false
	if err != nil {
		return nil, fmt.Errorf("system migrations: %w", err)
	}
	return w, nil
}

// CreateLedger creates a ledger through the real system controller. Migration mode
// (tolerant of legacy back-fill DML pgsim cannot run, on empty tables only) is on for
// the duration of the call and never otherwise.
func (w *World) CreateLedger(ctx context.Context, name string, conf ledger.Configuration) error {
	w.PG.MigrationMode = true
	defer func() { w.PG.MigrationMode = false }()
	return w.Sys.CreateLedger(ctx, name, conf)
}

func (w *World) Close() {
	_ = w.Bun.Close()
}
