package world

import (
	"context"
	"math/big"
	"testing"

	ledger "github.com/formancehq/ledger/internal"
	ledgercontroller "github.com/formancehq/ledger/internal/controller/ledger"
)

func TestBoot(t *testing.T) {
	ctx := context.Background()
	w, err := NewSystem(ctx)
	if err != nil {
		t.Fatal(err)
	}
	if err := w.CreateLedger(ctx, "l1", ledger.Configuration{}); err != nil {
		t.Fatal(err)
	}
	t.Log("skipped:", w.PG.SkippedInMigration)
	ctrl, err := w.Sys.GetLedgerController(ctx, "l1")
	if err != nil {
		t.Fatal(err)
	}
	_, res, _, err := ctrl.CreateTransaction(ctx, ledgercontroller.Parameters[ledgercontroller.CreateTransaction]{
		Input: ledgercontroller.CreateTransaction{
			RunScript: ledgercontroller.TxToScriptData(ledger.TransactionData{
				Postings: ledger.Postings{ledger.NewPosting("world", "a:b", "USD/2", big.NewInt(100))},
			}, false),
		},
	})
	if err != nil {
		t.Fatal(err)
	}
	t.Logf("%+v", res.Transaction)
	t.Log(w.PG.DumpFiltered(true, func(s, tb string) bool { return tb == "goose_db_version" }))
}
