// Package ev is the reporting side of every check: evidence files, VIOLATION /
// KNOWN-FINDING lines, replay artefacts, time budgets and exit codes.
package ev

import (
	"crypto/sha256"
	"encoding/hex"
	"encoding/json"
	"fmt"
	"os"
	"path/filepath"
	"sort"
	"strconv"
	"strings"
	"sync"
	"time"
)

// Root is /verif unless VERIF_ROOT says otherwise (vp run snapshots).
func Root() string {
	if r := os.Getenv("VERIF_ROOT"); r != "" {
		return r
	}
	// walk up from cwd until MANIFEST.json or properties.jsonl is found
	d, _ := os.Getwd()
	for d != "/" && d != "" {
		if _, err := os.Stat(filepath.Join(d, "properties.jsonl")); err == nil {
			return d
		}
		d = filepath.Dir(d)
	}
	return "/verif"
}

const (
	LevelExploration = "exploration"
	LevelFault       = "fault_enumeration"
	LevelMC          = "model_checking"
)

// Coverage is the free-form coverage object of EVIDENCE.schema.json.
type Coverage map[string]any

type violation struct {
	Signature string `json:"signature"`
	What      string `json:"what"`
	Replay    string `json:"replay"`
	Known     bool   `json:"known"`
}

type Run struct {
	ID    string
	Tier  string
	Seed  int
	Level string

	start    time.Time
	budget   time.Duration
	mu       sync.Mutex
	viol     []violation
	seenSig  map[string]bool
	known    map[string]string // signature -> what
	engineEr []string
	notes    []string
	capped   bool
}

type knownFile struct {
	Findings []struct {
		Property  string `json:"property"`
		Signature string `json:"signature"`
		What      string `json:"what"`
	} `json:"findings"`
	Fixed []string `json:"fixed"`
}

// Start opens a run. quickBudget/thoroughBudget are the internal deadlines: a run
// that reaches them stops, reports exhaustive:false and exits 0.
func Start(id, level string, quickBudget, thoroughBudget time.Duration) *Run {
	tier := os.Getenv("VERIF_TIER")
	if tier != "thorough" {
		tier = "quick"
	}
	seed, _ := strconv.Atoi(os.Getenv("VERIF_SEED"))
	r := &Run{ID: id, Tier: tier, Seed: seed, Level: level, start: time.Now(), seenSig: map[string]bool{}, known: map[string]string{}}
	r.budget = quickBudget
	if tier == "thorough" {
		r.budget = thoroughBudget
	}
	if b := os.Getenv("VERIF_BUDGET_S"); b != "" {
		if s, err := strconv.Atoi(b); err == nil {
			r.budget = time.Duration(s) * time.Second
		}
	}
	var kf knownFile
	if b, err := os.ReadFile(filepath.Join(Root(), "known_findings.json")); err == nil {
		if err := json.Unmarshal(b, &kf); err != nil {
			r.EngineError("known_findings.json unreadable: " + err.Error())
		}
		for _, f := range kf.Findings {
			if f.Property == id {
				r.known[f.Signature] = f.What
			}
		}
	}
	return r
}

func (r *Run) Thorough() bool { return r.Tier == "thorough" }

// Pick returns q for quick runs and t for thorough runs.
func Pick[T any](r *Run, q, t T) T {
	if r.Thorough() {
		return t
	}
	return q
}

// Expired reports whether the internal time budget is used up.
func (r *Run) Expired() bool { return time.Since(r.start) > r.budget }

func (r *Run) Elapsed() time.Duration { return time.Since(r.start) }

// Budget is the internal time budget of the run (tier default or VERIF_BUDGET_S).
func (r *Run) Budget() time.Duration { return r.budget }

func (r *Run) Note(s string) {
	r.mu.Lock()
	r.notes = append(r.notes, s)
	r.mu.Unlock()
}

// EngineError records a defect of the machinery (never a violation). Exit code 2.
func (r *Run) EngineError(msg string) {
	r.mu.Lock()
	defer r.mu.Unlock()
	// A vacuity guard only means something when the space was walked to its end: on a
	// run cut by its time budget (slow or loaded machine) it is a capped run, reported
	// as exhaustive:false with the guard's text as an observation, never as an alarm.
	if strings.HasPrefix(msg, "vacuous") && time.Since(r.start) > r.budget {
		r.capped = true
		r.notes = append(r.notes, "time budget reached before this guard could be met: "+msg)
		return
	}
	if len(r.engineEr) < 20 {
		r.engineEr = append(r.engineEr, msg)
	}
}

func (r *Run) HasEngineError() bool {
	r.mu.Lock()
	defer r.mu.Unlock()
	return len(r.engineEr) > 0
}

// Violation records a property violation. signature is structural (it names the
// class of failing input/schedule, not the instance) and is what
// known_findings.json is keyed by. Only the first violation per signature writes
// a replay file. Returns true when the signature is new.
func (r *Run) Violation(signature, what string, replay any) bool {
	r.mu.Lock()
	defer r.mu.Unlock()
	if r.seenSig[signature] {
		return false
	}
	r.seenSig[signature] = true
	_, known := r.known[signature]
	path := ""
	if replay != nil {
		b, _ := json.MarshalIndent(map[string]any{"property": r.ID, "signature": signature, "what": what, "replay": replay}, "", " ")
		h := sha256.Sum256([]byte(signature))
		dir := filepath.Join(Root(), "replays")
		_ = os.MkdirAll(dir, 0o755)
		path = filepath.Join(dir, r.ID+"-"+hex.EncodeToString(h[:6])+".json")
		_ = os.WriteFile(path, b, 0o644)
	}
	r.viol = append(r.viol, violation{Signature: signature, What: what, Replay: path, Known: known})
	return true
}

func (r *Run) ViolationCount() int {
	r.mu.Lock()
	defer r.mu.Unlock()
	return len(r.viol)
}

// Finish writes the evidence file, prints the protocol lines and returns the
// process exit code.
func (r *Run) Finish(cov Coverage, assumptions []string) int {
	r.mu.Lock()
	defer r.mu.Unlock()
	unknown := 0
	sort.SliceStable(r.viol, func(i, j int) bool { return r.viol[i].Signature < r.viol[j].Signature })
	for _, v := range r.viol {
		if v.Known {
			fmt.Printf("KNOWN-FINDING: property=%s %s [%s]\n", r.ID, oneLine(r.known[v.Signature]), v.Signature)
		} else {
			unknown++
		}
	}
	if cov == nil {
		cov = Coverage{}
	}
	if len(r.viol) > 0 {
		cov["violation_signatures"] = r.viol
	}
	if len(r.notes) > 0 {
		cov["observations"] = r.notes
	}
	if len(r.engineEr) > 0 {
		cov["engine_errors"] = r.engineEr
		cov["exhaustive"] = false
	}
	if r.capped {
		cov["exhaustive"] = false
		cov["capped_by_time_budget"] = true
	}
	out := map[string]any{
		"property_id": r.ID,
		"tier":        r.Tier,
		"seed":        r.Seed,
		"level":       r.Level,
		"coverage":    cov,
		"assumptions": assumptions,
		"wall_s":      time.Since(r.start).Seconds(),
		"violations":  unknown,
	}
	b, _ := json.MarshalIndent(out, "", " ")
	dir := filepath.Join(Root(), "evidence")
	_ = os.MkdirAll(dir, 0o755)
	if err := os.WriteFile(filepath.Join(dir, r.ID+".json"), b, 0o644); err != nil {
		fmt.Println("ENGINE-ERROR property=" + r.ID + " cannot write evidence: " + err.Error())
		return 2
	}
	if len(r.engineEr) > 0 && unknown == 0 {
		for _, e := range r.engineEr {
			fmt.Printf("ENGINE-ERROR property=%s %s\n", r.ID, oneLine(e))
		}
		return 2
	}
	if unknown > 0 {
		for _, v := range r.viol {
			if !v.Known {
				fmt.Printf("VIOLATION property=%s replay=%s\n  signature=%s\n  %s\n", r.ID, v.Replay, v.Signature, oneLine(v.What))
			}
		}
		return 1
	}
	fmt.Printf("OK property=%s tier=%s wall=%.1fs %s\n", r.ID, r.Tier, time.Since(r.start).Seconds(), summary(cov))
	return 0
}

func summary(cov Coverage) string {
	var parts []string
	for _, k := range []string{"states", "transitions", "evaluations", "distinct_nontrivial", "schedules", "exhaustive"} {
		if v, ok := cov[k]; ok {
			parts = append(parts, fmt.Sprintf("%s=%v", k, v))
		}
	}
	return strings.Join(parts, " ")
}

func oneLine(s string) string {
	s = strings.ReplaceAll(s, "\n", " | ")
	if len(s) > 600 {
		s = s[:600] + "…"
	}
	return s
}

// Samples keeps the first n values handed to Add (concurrency-safe).
type Samples struct {
	mu  sync.Mutex
	n   int
	out []any
}

func NewSamples(n int) *Samples { return &Samples{n: n} }
func (s *Samples) Add(v any) {
	s.mu.Lock()
	if len(s.out) < s.n {
		s.out = append(s.out, v)
	}
	s.mu.Unlock()
}
func (s *Samples) List() []any {
	s.mu.Lock()
	defer s.mu.Unlock()
	if s.out == nil {
		return []any{}
	}
	return s.out
}
