#!/bin/bash
# Builds the harness from files on disk only (offline) and warms the Go build cache.
set -e
export GOFLAGS=-mod=mod GOPROXY=off
cd "$(dirname "$0")/h"
cp /repo/go.sum go.sum
mkdir -p bin
go build -o bin/vcheck ./cmd/vcheck
# the Postgres model is the trusted base of the SQL-anchored checks: its self-test (99 cases, each
# citing the documentation rule it encodes) must pass before any property is run
bin/vcheck selftest
[ -x ./k5/run.sh ] && ./k5/run.sh build || true
echo setup ok
