#!/bin/bash
# tools/seed_import.sh <id> [name]: take a sub-agent's deliverables from /tmp/seed/<id>/out into
# /verif/seeded/<name> and remove its scratch worktree.
id=$1; name=${2:-$1}; V="$(cd "$(dirname "$0")/.." && pwd)"
rm -rf "$V/seeded/$name"; mkdir -p "$V/seeded/$name"
cp -r /tmp/seed/$id/out/patch.diff /tmp/seed/$id/out/demo /tmp/seed/$id/out/meta.json "$V/seeded/$name/" || exit 1
git -C /repo worktree remove --force /tmp/seed/$id/wt 2>/dev/null
ls "$V/seeded/$name/demo"
