#!/bin/bash
# tools/seed_import.sh <id> [name] [srcroot]: take a sub-agent's deliverables from <srcroot>/<id>/out
# (default /tmp/seed) into /verif/seeded/<name> and remove its scratch worktree.
id=$1; name=${2:-$1}; src=${3:-/tmp/seed}; V="$(cd "$(dirname "$0")/.." && pwd)"
rm -rf "$V/seeded/$name"; mkdir -p "$V/seeded/$name"
cp -r $src/$id/out/patch.diff $src/$id/out/demo $src/$id/out/meta.json "$V/seeded/$name/" || exit 1
git -C /repo worktree remove --force $src/$id/wt 2>/dev/null
ls "$V/seeded/$name/demo"
