#!/bin/bash
# tools/sandbox.sh <dir>: private development sandbox = scratch worktree of /repo's HEAD (<dir>/wt)
# + copy of /verif/h whose go.mod points at it (<dir>/h, a tiny git repo: `git -C <dir>/h diff` is
# the delta to integrate with `git apply --directory=h --3way` from /verif) + <dir>/root (evidence,
# replays, known_findings.json, properties.jsonl: VERIF_ROOT) + <dir>/out.
set -eu
B="$1"; V=/verif
rm -rf "$B"; mkdir -p "$B/root/evidence" "$B/root/replays" "$B/out"
git -C /repo worktree add --detach "$B/wt" HEAD > /dev/null 2>&1
rsync -a --exclude bin "$V/h/" "$B/h/"; mkdir -p "$B/h/bin"
sed -i "s#=> /repo/pkg/client#=> $B/wt/pkg/client#; s#ledger => /repo#ledger => $B/wt#" "$B/h/go.mod"
cp "$V/known_findings.json" "$V/properties.jsonl" "$B/root/"
cp "$B/wt/go.sum" "$B/h/go.sum"
( cd "$B/h" && git init -q && git add -A && git -c user.email=a@b -c user.name=x commit -qm base )
echo "$B ready"
