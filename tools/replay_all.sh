#!/bin/bash
# tools/replay_all.sh — re-executes every file of /verif/replays with ./replay against /repo's current tree
# and prints, per property, how many recorded violations still reproduce (exit != 0) and how many are
# silent now. The recorded files are the witnesses of the defects listed in known_findings.json: those of
# a `fixed:` entry must be silent, those of a known finding may still reproduce. Exit codes carry a
# verdict for props, pimport, pschema, pfault and k5; the TestReplay of phttp, pquery and pnum is
# descriptive (it prints and passes), so for C20 C22-C28 C36-C38 'silent' only means 'ran'.
V="$(cd "$(dirname "$0")/.." && pwd)"; cd "$V" || exit 2
out="${1:-/tmp/replay_all.txt}"; : > "$out"
for f in replays/*.json; do
  id=$(jq -r .property "$f"); sig=$(jq -r .signature "$f")
  ./replay "$f" > /tmp/replay_one.log 2>&1; rc=$?
  echo "$id rc=$rc $sig $(basename $f)" >> "$out"
done
awk '{k=$1" "($2=="rc=0"?"silent":"reproduces"); n[k]++} END {for (k in n) print k, n[k]}' "$out" | sort
