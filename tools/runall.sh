#!/bin/bash
# tools/runall.sh [tier] — runs setup, then every claimed check of MANIFEST.json the way the
# acceptance probe does (evidence file removed first); prints one line per check.
TIER="${1:-quick}"
V="$(cd "$(dirname "$0")/.." && pwd)"; cd "$V" || exit 2
export CARGO_NET_OFFLINE=true GOPROXY=off PIP_NO_INDEX=1 VERIF_SEED=1 VERIF_TIER="$TIER"
OUT="${RUNALL_OUT:-/tmp/runall}"; mkdir -p "$OUT"
$(jq -r .setup_cmd MANIFEST.json) > "$OUT/setup.log" 2>&1 || { echo "SETUP FAILED"; exit 2; }
bad=0
for id in $(jq -r '.checks[].property_id' MANIFEST.json); do
  cmd=$(jq -r --arg id "$id" --arg t "${TIER}_cmd" '.checks[]|select(.property_id==$id)|.[$t]' MANIFEST.json)
  ev=$(jq -r --arg id "$id" '.checks[]|select(.property_id==$id)|.evidence_file' MANIFEST.json)
  ev="$V/${ev#/verif/}"   # in a snapshot (vp run) the checks write under the snapshot, never under /verif
  rm -f "$ev"; s=$(date +%s)
  bash -c "$cmd" > "$OUT/$id.log" 2>&1; rc=$?
  v=$(grep -c '^VIOLATION' "$OUT/$id.log"); k=$(grep -c '^KNOWN-FINDING' "$OUT/$id.log")
  e=no; [ -s "$ev" ] && e=yes
  [ $rc -ne 0 -o "$v" -ne 0 -o $e = no ] && { bad=$((bad+1)); flag=" <<<< ALARM"; } || flag=""
  echo "$id exit=$rc violations=$v known=$k evidence=$e t=$(( $(date +%s)-s ))s$flag"
done
echo "alarms=$bad"
[ $bad -eq 0 ]
