#!/bin/bash
# tools/devrun.sh <tier> <check-id>... — run checks from the CURRENT /verif/h sources against a private
# worktree of /repo's HEAD (clean tree), leaving /repo and /verif/evidence alone. For development
# while /repo is busy (seed.sh run, sweeps). Output root: /tmp/devrun/<pid>/root.
set -u
V="$(cd "$(dirname "$0")/.." && pwd)"; TIER="$1"; shift
export GOFLAGS=-mod=mod GOPROXY=off
B=/tmp/devrun/$$; mkdir -p "$B/root/evidence" "$B/root/replays"
git -C /repo worktree prune
git -C /repo worktree add --detach "$B/wt" HEAD > /dev/null 2>&1 || { echo "cannot create worktree"; exit 2; }
trap 'git -C /repo worktree remove --force "$B/wt" >/dev/null 2>&1; rm -rf "$B/wt" "$B/h"' EXIT
rsync -a --exclude bin "$V/h/" "$B/h/"; mkdir -p "$B/h/bin"
sed -i "s#=> /repo/pkg/client#=> $B/wt/pkg/client#; s#ledger => /repo#ledger => $B/wt#" "$B/h/go.mod"
cp "$V/known_findings.json" "$V/properties.jsonl" "$B/root/"
cd "$B/h" && cp "$B/wt/go.sum" go.sum
go build -o bin/vcheck ./cmd/vcheck > "$B/build.log" 2>&1 || { echo "harness build failed"; tail -5 "$B/build.log"; exit 2; }
for id in "$@"; do
  if [ "$id" = C33 ]; then VERIF_REPO="$B/wt" VERIF_ROOT="$B/root" ./k5/run.sh "$TIER" > "$B/$id.log" 2>&1; rc=$?
  else VERIF_ROOT="$B/root" VERIF_TIER="$TIER" bin/vcheck run "$id" > "$B/$id.log" 2>&1; rc=$?; fi
  echo "== $id exit=$rc"; grep -A2 '^VIOLATION\|^ENGINE-ERROR\|^OK\|^KNOWN' "$B/$id.log" | cut -c1-400 | head -30
  cp "$B/root/evidence/$id.json" "/tmp/devrun/last.$id.json" 2>/dev/null
done
