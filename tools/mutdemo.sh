#!/bin/bash
# tools/mutdemo.sh <check-id> <file-relative-to-/repo> <sed-expression> [tier]
# Detection demo: applies one deliberate property-breaking edit to /repo's working tree,
# runs the check, ALWAYS restores the file (git checkout), prints the verdict.
# Replay files written by the mutated run are removed again.
set -u
ID="$1"; F="$2"; EXPR="$3"; TIER="${4:-quick}"
V="$(cd "$(dirname "$0")/.." && pwd)"
cd /repo || exit 2
if ! git diff --quiet -- "$F"; then echo "refusing: $F has local changes"; exit 2; fi
before=$(ls "$V/replays" | sort)
trap 'cd /repo && git checkout -- "$F"' EXIT
sed -i "$EXPR" "$F"
if git diff --quiet -- "$F"; then echo "mutation did not change $F"; exit 2; fi
git --no-pager diff -U0 -- "$F" | tail -n +5
(cd "$V" && ./check "$ID" "$TIER") > /tmp/mutdemo.$ID.log 2>&1
rc=$?
echo "exit=$rc violations=$(grep -c '^VIOLATION' /tmp/mutdemo.$ID.log)"
grep -A2 '^VIOLATION' /tmp/mutdemo.$ID.log | cut -c1-260 | head -9
grep '^ENGINE-ERROR' /tmp/mutdemo.$ID.log | head -3
for f in $(ls "$V/replays" | sort | comm -13 <(echo "$before") -); do rm -f "$V/replays/$f"; done
(cd "$V" && git checkout -- "evidence/$ID.json" 2>/dev/null)
exit 0
