#!/bin/bash
# tools/seed.sh — handling of seeded property-breaking changes (/verif/seeded/<name>/).
#
#   seed.sh confirm <dir> '<copy-cmd>' '<demo-cmd>'
#       <dir> holds patch.diff and demo/.  In a scratch worktree of /repo's HEAD (removed
#       afterwards): run copy-cmd ($D = <dir>/demo, cwd = worktree) and demo-cmd -> must pass;
#       apply patch.diff; go build ./...; demo-cmd -> must fail; whole root-module test suite ->
#       only TestMigrations (needs Docker) may fail.  Writes <dir>/confirm.json.
#   seed.sh run <dir> <tier> <check-id>...
#       git -C /repo apply <dir>/patch.diff; ./check <id> <tier> for each id with evidence and
#       replays redirected to a scratch root (the committed evidence is not touched); undo with
#       git -C /repo checkout -- . ; prints one line per check and writes <dir>/detect.<tier>.json.
#       /repo must be clean and nothing else may build from /repo meanwhile (flock).
set -u
V="$(cd "$(dirname "$0")/.." && pwd)"
export GOFLAGS=-mod=mod GOPROXY=off
cmd="$1"; shift
case "$cmd" in
confirm)
  DIR="$(cd "$1" && pwd)"; COPY="$2"; DEMO="$3"
  name=$(basename "$DIR"); W=/tmp/seedv/$name; rm -rf "$W"; mkdir -p /tmp/seedv
  git -C /repo worktree prune
  git -C /repo worktree add --detach "$W" HEAD > /dev/null 2>&1 || { echo "cannot create worktree"; exit 2; }
  trap 'git -C /repo worktree remove --force "$W" >/dev/null 2>&1; rm -rf "$W"' EXIT
  cd "$W" || exit 2
  export D="$DIR/demo"
  bash -c "$COPY" || { echo "copy-cmd failed"; exit 2; }
  bash -c "$DEMO" > "$DIR/demo_without.log" 2>&1; rc_without=$?
  git apply "$DIR/patch.diff" || { echo "patch does not apply on HEAD"; exit 2; }
  go build ./... > "$DIR/build_with.log" 2>&1; rc_build=$?
  bash -c "$DEMO" > "$DIR/demo_with.log" 2>&1; rc_with=$?
  git clean -fdq   # the demo files must not take part in the suite run
  go test -vet=off -count=1 ./... 2>&1 | grep -v '^ok\|no test files' > "$DIR/suite_with.log"
  # timing-sensitive tests flake on a loaded machine: a failing package is re-run alone, twice at most
  retried=""
  for pkg in $(grep -E '^FAIL[[:space:]]+github.com' "$DIR/suite_with.log" | awk '{print $2}' | grep -v test/migrations); do
    rel=./${pkg#github.com/formancehq/ledger/}
    for n in 1 2; do
      if go test -vet=off -count=1 "$rel" > "$DIR/suite_retry.log" 2>&1; then
        retried="$retried $pkg"; sed -i "\#$pkg#d" "$DIR/suite_with.log"; break
      fi
    done
  done
  failing=$(grep -E '^FAIL[[:space:]]+github.com' "$DIR/suite_with.log" | grep -v 'test/migrations' | head -5)
  rm -f "$DIR/suite_retry.log"
  ok=false
  [ $rc_without -eq 0 ] && [ $rc_build -eq 0 ] && [ $rc_with -ne 0 ] && [ -z "$failing" ] && ok=true
  jq -n --arg head "$(git -C /repo rev-parse --short HEAD)" --arg copy "$COPY" --arg demo "$DEMO" \
     --argjson a $rc_without --argjson b $rc_build --argjson c $rc_with --arg failing "$failing" --arg retried "$retried" --argjson ok $ok \
     '{repo_head:$head, copy_cmd:$copy, demo_cmd:$demo, demo_exit_without_change:$a, build_exit_with_change:$b, demo_exit_with_change:$c, suite_failures_other_than_TestMigrations:$failing, packages_passing_on_rerun_alone:$retried, confirmed:$ok}' > "$DIR/confirm.json"
  cat "$DIR/confirm.json"
  rm -f "$DIR/build_with.log"
  ;;
run)
  DIR="$(cd "$1" && pwd)"; TIER="$2"; shift 2
  exec 8> /tmp/seed.repo.lock; flock 8
  if [ -n "$(git -C /repo status --porcelain)" ]; then echo "refusing: /repo is not clean"; exit 2; fi
  name=$(basename "$DIR"); OUT=/tmp/seedrun/$name; rm -rf "$OUT"; mkdir -p "$OUT/evidence" "$OUT/replays"
  cp "$V/known_findings.json" "$V/properties.jsonl" "$OUT/"
  trap 'git -C /repo checkout -- . ; git -C /repo clean -fdq' EXIT
  git -C /repo apply "$DIR/patch.diff" || { echo "patch does not apply"; exit 2; }
  res="[]"
  for id in "$@"; do
    s=$(date +%s)
    (cd "$V" && VERIF_OUT_ROOT="$OUT" ./check "$id" "$TIER") > "$OUT/$id.log" 2>&1; rc=$?
    sigs=$(grep -A1 '^VIOLATION' "$OUT/$id.log" | grep 'signature=' | sed 's/.*signature=//' | sort -u | head -8 | jq -R . | jq -sc .)
    echo "$id exit=$rc violations=$(grep -c '^VIOLATION' "$OUT/$id.log") t=$(( $(date +%s)-s ))s $sigs"
    grep '^ENGINE-ERROR' "$OUT/$id.log" | head -2
    res=$(jq -c --arg id "$id" --argjson rc $rc --argjson sigs "$sigs" '. + [{check:$id, exit:$rc, signatures:$sigs}]' <<< "$res")
  done
  jq -n --arg tier "$TIER" --arg head "$(git -C /repo rev-parse --short HEAD)" --argjson r "$res" '{tier:$tier, repo_head:$head, results:$r}' > "$DIR/detect.$TIER.json"
  ;;
prun)
  # private run: same as `run` but on a scratch worktree of /repo's HEAD + a copy of h/ whose
  # go.mod points at it, so that /repo stays free (exploratory; the recorded detect.<tier>.json
  # comes from `run`). Stack-frame based signatures differ (paths are not under /repo).
  DIR="$(cd "$1" && pwd)"; TIER="$2"; shift 2
  name=$(basename "$DIR"); B=/tmp/seedp/$name; rm -rf "$B"; mkdir -p "$B/root/evidence" "$B/root/replays"
  git -C /repo worktree prune
  git -C /repo worktree add --detach "$B/wt" HEAD > /dev/null 2>&1 || { echo "cannot create worktree"; exit 2; }
  trap 'git -C /repo worktree remove --force "$B/wt" >/dev/null 2>&1; rm -rf "$B/wt" "$B/h"' EXIT
  git -C "$B/wt" apply "$DIR/patch.diff" || { echo "patch does not apply"; exit 2; }
  rsync -a --exclude bin "$V/h/" "$B/h/"; mkdir -p "$B/h/bin"
  sed -i "s#=> /repo/pkg/client#=> $B/wt/pkg/client#; s#ledger => /repo#ledger => $B/wt#" "$B/h/go.mod"
  cp "$V/known_findings.json" "$V/properties.jsonl" "$B/root/"
  cd "$B/h" && cp "$B/wt/go.sum" go.sum
  if ! go build -o bin/vcheck ./cmd/vcheck > "$B/build.log" 2>&1; then echo "harness build failed"; tail -5 "$B/build.log"; exit 2; fi
  for id in "$@"; do
    s=$(date +%s)
    if [ "$id" = C33 ]; then
      VERIF_REPO="$B/wt" VERIF_ROOT="$B/root" ./k5/run.sh "$TIER" > "$B/$id.log" 2>&1; rc=$?
    else
      VERIF_ROOT="$B/root" VERIF_TIER="$TIER" bin/vcheck run "$id" > "$B/$id.log" 2>&1; rc=$?
    fi
    sigs=$(grep -A1 '^VIOLATION' "$B/$id.log" | grep 'signature=' | sed 's/.*signature=//' | sort -u | head -8 | jq -R . | jq -sc .)
    echo "$name: $id exit=$rc violations=$(grep -c '^VIOLATION' "$B/$id.log") t=$(( $(date +%s)-s ))s $sigs"
    grep '^ENGINE-ERROR' "$B/$id.log" | head -2
  done
  ;;
*) echo "usage: seed.sh confirm|run|prun ..."; exit 2 ;;
esac
