#!/bin/bash
# tools/racepass.sh [reps] — free-running pass of every K2 scenario's thread bodies under the Go race
# detector (h/props/racepass_test.go, build tag racepass): real goroutines, pgsim in ModeFree.
# Informational (DESIGN section 3): it samples schedules and decides no property; it reports
# unsynchronised accesses the cooperative scheduler cannot see. Writes evidence_extra/racepass.json.
# Exit 0: no race reported; 1: the detector reported a race (output kept in evidence_extra/racepass.log).
set -u
V="$(cd "$(dirname "$0")/.." && pwd)"; REPS="${1:-8}"
export GOFLAGS=-mod=mod GOPROXY=off RACEPASS_REPS="$REPS"
mkdir -p "$V/evidence_extra"; cd "$V/h" || exit 2; cp /repo/go.sum go.sum 2>/dev/null
s=$(date +%s)
go test -race -tags racepass -vet=off -count=1 -run '^TestRacePass$' -v ./props > "$V/evidence_extra/racepass.log" 2>&1; rc=$?
races=$(grep -c 'WARNING: DATA RACE' "$V/evidence_extra/racepass.log")
scen=$(grep -c 'RACEPASS C' "$V/evidence_extra/racepass.log")
total=$(grep -o 'RACEPASS total executions: [0-9]*' "$V/evidence_extra/racepass.log" | grep -o '[0-9]*$')
jq -n --argjson reps "$REPS" --argjson scen "$scen" --argjson total "${total:-0}" --argjson races "$races" --argjson rc $rc --argjson wall $(( $(date +%s)-s )) \
  --arg head "$(git -C /repo rev-parse --short HEAD)" \
  '{what:"free-running -race pass of the K2 scenario thread bodies (real goroutines, pgsim ModeFree); informational, decides no property", repo_head:$head, scenarios:$scen, repetitions_per_scenario:$reps, executions:$total, data_races_reported:$races, go_test_exit:$rc, wall_s:$wall}' > "$V/evidence_extra/racepass.json"
cat "$V/evidence_extra/racepass.json"
[ "$races" -eq 0 ] && [ $rc -eq 0 ]
