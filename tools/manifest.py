#!/usr/bin/env python3
"""Regenerates /verif/MANIFEST.json from the table below (single source of truth)."""
import json, os
ROOT = os.path.dirname(os.path.dirname(os.path.abspath(__file__)))
ALL = ["C%02d" % i for i in range(1, 39)]

PGSIM_NOTE = ("trusted base: pgsim, a hand-written in-process interpreter of the Postgres subset the ledger uses "
              "(not validated against a real server: none exists in this sandbox); the real Go code, the real migrations "
              "and the real SQL text run on it; bounded universe (see evidence 'rule')")
SEQ = ("explicit-state enumeration of every operation sequence up to a depth bound on the real stack "
       "(system controller -> ledger controller -> store -> bun -> SQL on pgsim), reference-model oracle after every sequence")

# id -> (level, technique, text, note, design_ref)
CHECKS = {
 "C01": ("model_checking", SEQ, "All sequences of length<=3 (quick)/4 (thorough) over a 16-op write alphabet; conservation per asset checked in every view (volumes listing, aggregated balances, PIT in both date modes at every recorded instant, raw accounts_volumes and moves). The same on a twin ledger into which the export of every enumerated history is imported.", PGSIM_NOTE, "5 Group A"),
 "C02": ("model_checking", SEQ, "All sequences of length<=3/4 over the write alphabet; volumes from GetAccount/ListAccounts/GetVolumesWithBalances/GetAggregatedBalances equal the fold of committed postings (failed and dry-run writes excluded), from the live process and from a freshly attached one. Before that, every sequence of length<=3/5 over a bucket-lifecycle alphabet (a neighbour ledger created in the same bucket, soft delete and restore of the bucket, writes on both) with the same comparison for every routable ledger. The main configuration also evaluates the comparison on a twin ledger into which the export of every enumerated history is imported.", PGSIM_NOTE, "5 Group A"),
 "C03": ("model_checking", SEQ, "All sequences of length<=3/4; for every transaction after every sequence: postCommitVolumes, JSON preCommitVolumes, per-move post-commit volumes and log payloads equal the reference; re-checked after every later write (immutability). The same on a twin ledger into which the export of every enumerated history is imported.", PGSIM_NOTE, "5 Group A"),
 "C04": ("model_checking", SEQ, "All sequences of length<=3/5 over creates with past/equal/future effective timestamps (ties forced) and reverts; effective volumes per transaction and per account at PIT equal the fold in (effective timestamp, insertion order). The set_effective_volumes/update_effective_volumes triggers are executed from the migration text. The same on a twin ledger into which the export of every enumerated history is imported.", PGSIM_NOTE, "5 Group A"),
 "C05": ("model_checking", SEQ, "All sequences of length<=3/4; PIT and (OOT,PIT) reads at every recorded instant +-1us in both date modes equal the reference folds; account/transaction visibility and reverted flag at t. The same reads with the same reference on a twin ledger (other bucket) into which the export of every enumerated history is imported.", PGSIM_NOTE, "5 Group A"),
 "C08": ("model_checking", SEQ, "Sequential half: all sequences of length<=3/4 over every write kind plus failing and dry-run writes; exactly one log per successful write and none otherwise, ids increasing, state rebuilt from log payloads alone equals every read. Concurrent half (K2): 4 scenarios of 2-3 concurrent writers (disjoint creates, mixed kinds with a dry run, a failing writer in between, HASH_LOGS=DISABLED), every schedule with <=2 preemptions (thorough: all): one log per committed write, log ids strictly increasing along the order in which COMMITs executed, final state == replay of the committed writes. 1 known finding (HASH_LOGS != SYNC: log ids follow statement order, not commit order).", PGSIM_NOTE + "; concurrent half: Go code between two driver calls is executed atomically; commit order = order in which COMMIT calls were scheduled", "5 Group B"),
 "C15": ("model_checking", SEQ, "Sequential half: all sequences of length<=3/4 over creates and reverts (plain/forced/at effective date/dry run, reverts of reverts, second reverts): postings inverse, mark, timestamp rule, single success, no effect on failure, balances unchanged by the pair. Also a revert whose request metadata uses the reserved revert-mark key.", PGSIM_NOTE, "5 Group B"),
 "C17": ("model_checking", SEQ, "For each of the 4 metadata-history feature combinations: all sequences of length<=3/4 over every metadata write path; current metadata == last-write-wins fold; PIT reads == revision at t (SYNC) or current metadata (DISABLED). The alphabet includes post-dated and back-dated creates that carry metadata for an account that already has some. The same current and point-in-time reads with the same reference on a twin ledger (same features, other bucket) into which the export of every enumerated history is imported (1 known finding: an imported account-metadata deletion is dated at the import).", PGSIM_NOTE, "5 Group A"),
 "C18": ("model_checking", SEQ, "All sequences of length<=3/4 over back/future-dated creates, failing creates and metadata-only accounts: listed set, firstUsage (lowered by back-dating), insertionDate immutable, PIT visibility. The same reads with the same reference on a twin ledger into which the export of every enumerated history is imported.", PGSIM_NOTE, "5 Group A"),
 "C24": ("exploration", "bounded-exhaustive enumeration of portion vectors x amounts against an arithmetic reference",
         "Every allotment of length<=4(5) over rationals with denominator<=7(8) incl. zero portions and `remaining` at every position, percent literals through the real parser, times boundary amounts (2^31..2^64 +-1, amounts straddling 2^31/2^32/2^53/2^63/2^64 for each numerator, 10^30), allocated by the real Allotment.Allocate and compared with floor+leftover-to-earliest; plus a VM leg: every vector of length<=3 (incl. empty portions, portion variables) compiled as source and destination allotments and run on the real machine, oracle on the postings. Spelling leg (first): every percent I[.F]% with leading/trailing zeros and values below 1% and every fraction N/D with leading zeros and blanks, read independently in base ten and compared with ParsePortionSpecific, then run as allotment literal, portion variable and metadata portion on the real machine.",
         "machine.NewAllotment/Allocate called directly, and the real compiler + machine for the VM leg; no SQL involved", "5 Group E"),
}

NA_REASON_PENDING = "check not built yet in this round (planned: see DESIGN.md section 5); not claimed"

def main():
    extra_path = os.path.join(ROOT, "tools", "checks_extra.json")
    extra = json.load(open(extra_path)) if os.path.exists(extra_path) else {}
    table = dict(CHECKS)
    for k, v in extra.items():
        table[k] = tuple(v)
    checks = []
    for pid in ALL:
        if pid not in table:
            continue
        level, tech, text, note, ref = table[pid]
        checks.append({
            "property_id": pid,
            "quick_cmd": "./check %s quick" % pid,
            "thorough_cmd": "./check %s thorough" % pid,
            "evidence_file": "/verif/evidence/%s.json" % pid,
            "replay_cmd_template": "./replay {path}",
            "engine": "vcheck",
            "level_claimed": {"category": level, "text": text, "design_ref": "DESIGN.md " + ref},
            "level_note": note,
            "technique": tech,
        })
    na_path = os.path.join(ROOT, "tools", "not_applicable.json")
    na_over = json.load(open(na_path)) if os.path.exists(na_path) else {}
    na = [{"property_id": p, "reason": na_over.get(p, NA_REASON_PENDING)} for p in ALL if p not in table]
    src_commits = []
    m = {
        "version": 1,
        "setup_cmd": "./setup.sh",
        "hooks": {
            "guard": "verif",
            "enable": "no source hooks: checks build a harness module (replace => /repo) against the working tree; C33 uses go test -overlay files generated at check time from the current /repo sources",
            "baseline_off_cmd": "for m in . ./deployments/pulumi ./pkg/client; do (cd /repo/$m && GOFLAGS=-mod=mod go test -json -vet=off -count=1 -timeout 25m ./...); done",
            "source_commits": src_commits,
            "add_only": True,
        },
        "engines": [
            {"name": "vcheck", "path": "/verif/h", "serves_properties": [c["property_id"] for c in checks],
             "kind_free_text": "Go harness module compiled against /repo: pgsim (Postgres-subset interpreter as database/sql driver) + explicit-state / schedule / fault / input explorers driving the real ledger code"},
        ],
        "checks": checks,
        "not_applicable": na,
        "notes": "exit 0 = held on everything explored; 1 = VIOLATION line; 2 = ENGINE-ERROR (harness defect, never a property verdict). Known findings and fixed defects: /verif/known_findings.json.",
    }
    json.dump(m, open(os.path.join(ROOT, "MANIFEST.json"), "w"), indent=1)
    print("checks:", len(checks), "not_applicable:", len(na))

if __name__ == "__main__":
    main()
