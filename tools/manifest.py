#!/usr/bin/env python3
"""Regenerates /verif/MANIFEST.json from the table below (single source of truth)."""
import json, os
ROOT = os.path.dirname(os.path.dirname(os.path.abspath(__file__)))
ALL = ["C%02d" % i for i in range(1, 39)]

PGSIM_NOTE = ("pgsim: a hand-written in-process interpreter of the Postgres subset the ledger uses "
              "(not validated against a real server: none exists in this sandbox); the real Go code and the real SQL text run on it")

# id -> (level, technique, text, note, design_ref)
CHECKS = {
 "C24": ("exploration", "bounded-exhaustive enumeration of portion vectors x amounts against an arithmetic reference",
         "Every allotment of length<=4(5) over rationals with denominator<=7(8) incl. zero portions and `remaining` at every position, times 63+ amounts incl. >2^64, is allocated by the real Allotment.Allocate and compared with floor+leftover-to-earliest reference.",
         "machine.NewAllotment/Allocate called directly; no SQL involved", "5 Group E"),
 "C02": ("model_checking", "explicit-state enumeration of all operation sequences up to a depth bound on the real stack over pgsim, reference-model comparison after every sequence",
         "Every sequence of length<=3 (quick) / 4 (thorough) over a 16-operation write alphabet is executed through the real system controller -> ledger controller -> store -> bun -> SQL on pgsim; volumes reported by GetAccount/ListAccounts/GetVolumesWithBalances/GetAggregatedBalances must equal the fold of committed postings (failed and dry-run writes excluded), for the live process and a freshly attached one.",
         PGSIM_NOTE, "5 Group A"),
}

NA_REASON_PENDING = "check not built yet in this round (planned: see DESIGN.md section 5); not claimed"

def main():
    checks = []
    for pid in ALL:
        if pid not in CHECKS:
            continue
        level, tech, text, note, ref = CHECKS[pid]
        checks.append({
            "property_id": pid,
            "quick_cmd": "./check %s quick" % pid,
            "thorough_cmd": "./check %s thorough" % pid,
            "evidence_file": "/verif/evidence/%s.json" % pid,
            "replay_cmd_template": "./check-replay {path}",
            "engine": "vcheck",
            "level_claimed": {"category": level, "text": text, "design_ref": "DESIGN.md " + ref},
            "level_note": note,
            "technique": tech,
        })
    na_path = os.path.join(ROOT, "tools", "not_applicable.json")
    na_over = json.load(open(na_path)) if os.path.exists(na_path) else {}
    na = [{"property_id": p, "reason": na_over.get(p, NA_REASON_PENDING)} for p in ALL if p not in CHECKS]
    m = {
        "version": 1,
        "setup_cmd": "./setup.sh",
        "hooks": {
            "guard": "verif",
            "enable": "no source hooks: checks build a harness module (replace => /repo) against the working tree; C33/C34 use go build -overlay files generated at check time from the current /repo sources",
            "baseline_off_cmd": "for m in . ./deployments/pulumi ./pkg/client; do (cd /repo/$m && GOFLAGS=-mod=mod go test -json -vet=off -count=1 -timeout 25m ./...); done",
            "source_commits": [],
            "add_only": True,
        },
        "engines": [
            {"name": "vcheck", "path": "/verif/h", "serves_properties": [c["property_id"] for c in checks],
             "kind_free_text": "Go harness module compiled against /repo: pgsim (Postgres-subset interpreter as database/sql driver) + explicit-state / schedule / fault / input explorers driving the real ledger code"},
        ],
        "checks": checks,
        "not_applicable": na,
        "notes": "exit 0 = held on everything explored; 1 = VIOLATION line; 2 = ENGINE-ERROR (harness defect, never a property verdict). Known findings: /verif/known_findings.json.",
    }
    json.dump(m, open(os.path.join(ROOT, "MANIFEST.json"), "w"), indent=1)
    print("checks:", len(checks), "not_applicable:", len(na))

if __name__ == "__main__":
    main()
